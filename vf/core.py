"""Core types shared by every check: Violation, Ctx (counters), Sub (sub-check)."""

from __future__ import annotations

import collections.abc
import hashlib
import json
import math
from collections import Counter
from dataclasses import dataclass, field
from typing import Any, Callable, Dict, Iterable, List, Optional



class SeqView(collections.abc.Sequence):
    """A read-only sequence that is neither a list nor a tuple (what a user's own container, a pandas-free
    record set or a lazily indexed collection looks like to code that declares ``Sequence``)."""

    def __init__(self, items):
        self._items = list(items)

    def __len__(self):
        return len(self._items)

    def __getitem__(self, i):
        if isinstance(i, slice):
            return SeqView(self._items[i])
        return self._items[i]

    def __repr__(self):
        return f"SeqView({self._items!r})"



def run_interleaved(fa, fb, max_pauses=48, join_timeout=20.0, pick=0):
    """Run ``fa()`` in this thread and, at chosen source lines *inside the library*, suspend it while another thread
    runs ``fb()`` to completion (the harness owns the schedule: the pauses are taken from a line tracer, so a run is a
    pure function of the code and of ``pick``).

    A first traced run of ``fa`` lists the distinct (file, line) locations it executes in soundevent frames together
    with the shallowest library depth they were seen at; the second run pauses at the first visit of up to
    ``max_pauses`` of them (shallow ones first, the rest drawn by ``pick``).  Returns (result of the first run,
    result of the interleaved run, list of fb results, number of pauses).  Exceptions of fa propagate; an exception in
    fb is returned in place of its result.  A thread that does not finish within ``join_timeout`` is waited for after
    fa ends and the probe reports no pauses (no verdict) - the library takes no locks today, so this is only a guard.
    """
    import sys
    import threading

    def is_lib(frame):
        return "/soundevent/" in frame.f_code.co_filename.replace("\\", "/")

    def depth_of(frame):
        d = 0
        while frame is not None:
            if is_lib(frame):
                d += 1
            frame = frame.f_back
        return d

    seen = {}

    def tracer_list(frame, event, arg):
        if event == "line":
            key = (frame.f_code.co_filename, frame.f_lineno)
            if key not in seen:
                seen[key] = (depth_of(frame), len(seen))
        return tracer_list

    def global_list(frame, event, arg):
        return tracer_list if is_lib(frame) else None

    old = sys.gettrace()
    sys.settrace(global_list)
    try:
        first = fa()
    finally:
        sys.settrace(old)
    order = sorted(seen, key=lambda k: (seen[k][0], (seen[k][1] * 2654435761 + pick * 40503) % 1000003))
    chosen = set(order[:max_pauses])
    fb_results = []
    hung = []
    threads = []

    def run_b():
        try:
            fb_results.append(fb())
        except BaseException as e:  # noqa: BLE001 - handed back to the caller
            fb_results.append(e)

    def tracer_pause(frame, event, arg):
        if event == "line" and not hung:
            key = (frame.f_code.co_filename, frame.f_lineno)
            if key in chosen:
                chosen.discard(key)
                t = threading.Thread(target=run_b, daemon=True)
                threads.append(t)
                t.start()
                t.join(join_timeout)
                if t.is_alive():
                    hung.append(key)
        return tracer_pause

    def global_pause(frame, event, arg):
        return tracer_pause if is_lib(frame) else None

    sys.settrace(global_pause)
    try:
        second = fa()
    except Exception as e:  # noqa: BLE001 - the first run succeeded: handed back to the caller
        second = e
    finally:
        sys.settrace(old)
    for t in threads:
        t.join()
    if hung:
        return first, second, [], 0
    return first, second, fb_results, len(fb_results)


class Violation(Exception):
    """The property under test was broken by the code under test."""

    def __init__(self, subcheck, message, spec=None, observed=None, expected=None, kind=None):
        super().__init__(message)
        self.subcheck = subcheck
        self.message = message
        self.spec = spec
        self.observed = observed
        self.expected = expected
        self.kind = kind or "mismatch"


class KnownSkip(Exception):
    """Raised to abandon the rest of a case after a failure that matched an open known finding."""


class HarnessError(Exception):
    """The machinery (generator / oracle / build step) is broken - never a verdict."""


def jsonable(x):
    """Best effort conversion of observations to JSON-able values."""
    try:
        import numpy as np
    except Exception:  # pragma: no cover
        np = None
    if isinstance(x, float):
        if math.isnan(x):
            return "NaN"
        if math.isinf(x):
            return "Infinity" if x > 0 else "-Infinity"
        return x
    if x is None or isinstance(x, (bool, int, str)):
        return x
    if np is not None:
        if isinstance(x, np.generic):
            return jsonable(x.item())
        if isinstance(x, np.ndarray):
            return jsonable(x.tolist())
    if isinstance(x, dict):
        return {str(k): jsonable(v) for k, v in x.items()}
    if isinstance(x, (list, tuple, set, frozenset)):
        return [jsonable(v) for v in x]
    return repr(x)[:400]


def canon(spec) -> str:
    return json.dumps(jsonable(spec), sort_keys=True, separators=(",", ":"), ensure_ascii=True)


def spec_hash(spec) -> int:
    return int.from_bytes(hashlib.blake2b(canon(spec).encode(), digest_size=8).digest(), "big")


def short(x, n=1500):
    s = canon(x)
    if len(s) <= n:
        return jsonable(x)
    return s[:n] + "...(truncated)"


def snapshot(obj):
    """Canonical, comparable picture of an input object (used to assert that a call did not modify its inputs)."""
    try:
        import numpy as np
        import xarray as xr
    except Exception:  # pragma: no cover
        np = xr = None
    from pydantic import BaseModel

    if isinstance(obj, BaseModel):
        return ("model", type(obj).__name__, obj.model_dump_json())
    if xr is not None and isinstance(obj, xr.DataArray):
        return (
            "xr", obj.dims, obj.dtype.str, obj.values.tobytes(), repr(sorted(obj.attrs.items(), key=str)),
            tuple((k, obj.coords[k].values.tobytes(), repr(sorted(obj.coords[k].attrs.items(), key=str))) for k in sorted(map(str, obj.coords))),
        )
    if np is not None and isinstance(obj, np.ndarray):
        return ("np", obj.dtype.str, obj.shape, obj.tobytes())
    if isinstance(obj, dict):
        return ("dict", tuple((repr(k), snapshot(v)) for k, v in obj.items()))
    if isinstance(obj, (list, tuple)):
        return (type(obj).__name__, tuple(snapshot(v) for v in obj))
    return ("repr", repr(obj))


PROBE_BUDGET = 250


class Ctx:
    """Per-shard counters.  Check functions call ctx.case(...) once per generated case and
    ctx.fail(...) when the oracle disagrees with the code."""

    def __init__(self, prop: str, sub: str, open_findings: Dict[str, Callable]):
        self.prop = prop
        self.sub = sub
        self.evaluations = 0
        self.nontrivial = set()
        self.n_nontrivial = 0
        self.labels = Counter()
        self.samples: List[Any] = []
        self.sample_cap = 3
        self.known_hits = Counter()
        self.open_findings = open_findings  # id -> predicate(spec, kind, message) -> bool
        self.keep_min = []  # (hash, sample)

    def case(self, spec, nontrivial: bool, labels: Iterable[str] = (), out=None):
        self.evaluations += 1
        for lab in labels:
            self.labels[lab] += 1
        if nontrivial:
            self.n_nontrivial += 1
            h = spec_hash(spec)
            if h not in self.nontrivial:
                self.nontrivial.add(h)
                if len(self.samples) < self.sample_cap:
                    self.samples.append({"sub": self.sub, "spec": short(spec), "observed": short(out, 600)})
                else:
                    # keep the two smallest hashes as "drawn by hash order"
                    if len(self.keep_min) < 2 or h < self.keep_min[-1][0]:
                        self.keep_min.append((h, {"sub": self.sub, "spec": short(spec), "observed": short(out, 600)}))
                        self.keep_min.sort(key=lambda t: t[0])
                        del self.keep_min[2:]

    def label(self, *labels):
        for lab in labels:
            self.labels[lab] += 1

    def fail(self, message, spec, observed=None, expected=None, kind=None):
        """Report a disagreement.  Open known findings are counted and skipped; anything else raises."""
        kind = kind or "mismatch"
        for fid, pred in self.open_findings.items():
            try:
                hit = pred(spec, kind, message)
            except Exception:
                hit = False
            if hit:
                self.known_hits[fid] += 1
                return False
        raise Violation(self.sub, message, spec=spec, observed=jsonable(observed), expected=jsonable(expected), kind=kind)

    def call(self, spec, what, fn, *args, **kwargs):
        """Call the code under test where the property says the call must succeed: any exception is a violation
        (kind 'raised'); if it matches an open known finding the case is abandoned quietly."""
        try:
            return fn(*args, **kwargs)
        except (Violation, KnownSkip):
            raise
        except Exception as e:  # noqa: BLE001 - the contract here is 'must not raise'
            self.fail(f"{what} raised {type(e).__name__}: {str(e)[:200]}", spec, repr(e)[:300], "a result", kind="raised")
            raise KnownSkip()

    def interleave(self, spec, what, fa, fb, same=None, every=1, max_pauses=48):
        """Schedule probe: ``fa()`` is suspended at source lines inside the library while another thread runs ``fb()``
        (the same API on other arguments) to completion; both must return what they return when run alone."""
        if every > 1 and spec_hash(spec) % every:
            return False
        # a probe costs some forty calls: each shard of a sub-check spends at most PROBE_BUDGET of them (the thorough tier's extra cases
        # go to the sequential oracles)
        if self.labels["interleaved_schedule"] >= PROBE_BUDGET:
            self.labels["interleave_budget_spent"] += 1
            return False
        same = same or (lambda x, y: x == y)
        try:
            rb = fb()
        except Exception:  # noqa: BLE001 - the second call is only the stimulus: it must be one that succeeds alone
            self.labels["interleave_skipped_stimulus_raises"] += 1
            return False
        ra, ra2, rbs, n = run_interleaved(fa, fb, max_pauses=max_pauses, pick=spec_hash(spec) % 9973)
        if isinstance(ra2, BaseException):
            self.fail(f"{what}: raised {type(ra2).__name__}: {str(ra2)[:160]} when another thread called the same function on other arguments while this call was suspended inside the library (the call alone succeeds)", spec, repr(ra2)[:300], short(jsonable(ra), 300), kind="not_reentrant")
            return True
        if not same(ra, ra2):
            self.fail(f"{what}: the result differs when another thread calls the same function on other arguments while this call is suspended inside the library", spec, short(jsonable(ra2), 400), short(jsonable(ra), 400), kind="not_reentrant")
        for r in rbs:
            if isinstance(r, BaseException):
                self.fail(f"{what}: the call made by the other thread raised {type(r).__name__}: {str(r)[:160]} (alone it succeeds)", spec, repr(r)[:300], short(jsonable(rb), 300), kind="not_reentrant")
            elif not same(r, rb):
                self.fail(f"{what}: the call made by the other thread while the first was suspended returns something else than it does alone", spec, short(jsonable(r), 400), short(jsonable(rb), 400), kind="not_reentrant")
        self.labels["interleaved_schedule"] += 1
        self.labels["interleaved_pauses"] += n
        return True

    def unchanged(self, spec, what, before, obj):
        """Assert that `obj` still looks like its earlier snapshot `before` (inputs must not be modified)."""
        if snapshot(obj) != before:
            self.fail(f"{what} was modified by the call (inputs must be left untouched)", spec, None, None, kind="input_mutated")

    def result(self):
        return {
            "evaluations": self.evaluations,
            "n_nontrivial": self.n_nontrivial,
            "hashes": list(self.nontrivial),
            "labels": dict(self.labels),
            "samples": self.samples + [s for _, s in self.keep_min],
            "known_hits": dict(self.known_hits),
        }


@dataclass
class Sub:
    """One sub-check of a property.

    check(spec, ctx): runs one case (spec is plain JSON-able data), calls ctx.case / ctx.fail.
    strategy(): returns a Hypothesis strategy of specs (random mode), or
    enumerate(tier): returns a list of specs (exhaustive mode; evidence marks it exhaustive).
    quick / thorough: number of Hypothesis examples in total over all shards.
    """

    name: str
    check: Callable
    strategy: Optional[Callable] = None
    enumerate: Optional[Callable] = None
    quick: int = 1000
    thorough: int = 20000
    min_nontrivial: float = 0.02  # vacuity guard: fraction of evaluations that must be non-trivial
    shards: Optional[int] = None
    exhaustive_note: str = ""
    setup: Optional[Callable] = None  # called once per shard process before cases
    max_shrink_s: float = 15.0
