"""C07 - matching is an optimal one-to-one assignment that covers every geometry once."""

from __future__ import annotations

import itertools

from hypothesis import strategies as st

from vf.core import Sub
from vf.oracles.shp import shift_spec_time
from vf.strategies import ALL_KINDS, F_SCALES, T_SCALES, geom_dict, geometry_spec

PROP = "C07"
TECHNIQUE = "property-based testing: validity predicate (cover, positivity, exact reported affinity) + brute-force optimum over all partial one-to-one pairings for lists up to 5x5 (6x6 thorough)"
LEVEL_TEXT = (
    "match_geometries is run on generated source/target lists (all sizes 0..5 x 0..5, geometries drawn from a small pool so that exact "
    "duplicates and ties occur, placed in time clusters so that zero-affinity pairs occur) and the output is checked to mention every "
    "index exactly once, to pair only positive-affinity pairs, to report exactly the independently computed affinity, and to reach the "
    "brute-force maximum total. Exploration."
)
LEVEL_NOTE = "uses compute_affinity (checked by C06) on single pairs as the reference for matrix entries; brute force enumerates all injective partial maps"
RULE = (
    "Hypothesis: sizes (n, m) uniformly over [0..5]^2 (thorough: [0..6]^2); a pool of 2-5 valid geometries of any type in one frame, each "
    "optionally displaced into a second / third time cluster (so that whole groups have zero affinity to each other); source and target are "
    "lists of pool indices (repeats = exact duplicates = ties). Non-trivial = n, m >= 2 and the affinity matrix has both a zero and a positive entry."
)
ASSUMPTIONS = ["geometries are valid and lines are simple; buffers are positive and scaled to the frame (C06/C11 domain)"]


@st.composite
def case(draw, maxn=5):
    n = draw(st.integers(0, maxn))
    m = draw(st.integers(0, maxn))
    ts = draw(st.sampled_from(T_SCALES))
    fs = draw(st.sampled_from(F_SCALES))
    frame = {"ts": ts, "fs": fs, "t_off": ts * 0.5, "f_off": fs * 0.5, "flip": draw(st.integers(0, 3)) == 0}
    if frame["flip"]:
        frame["f_off"] = 0.0
    npool = draw(st.integers(2, 5))
    pool = []
    for _ in range(npool):
        g = draw(geometry_spec(simple_lines=True, allow_degenerate=False, frame=frame, small=True))
        cluster = draw(st.sampled_from([0, 0, 0, 1, 2]))
        if cluster:
            shifted = shift_spec_time(g["type"], g["coordinates"], ts * 16.0 * cluster)
            # free-float times closer than one ulp of the shifted values merge under the shift: such a line stays where it is
            lines = [shifted] if g["type"] == "LineString" else (shifted if g["type"] == "MultiLineString" else [])
            if all(a[0] < b[0] for ln in lines for a, b in zip(ln, ln[1:])):
                g = {"type": g["type"], "coordinates": shifted, "meta": g["meta"]}
        pool.append(g)
    src = draw(st.lists(st.integers(0, npool - 1), min_size=n, max_size=n))
    tgt = draw(st.lists(st.integers(0, npool - 1), min_size=m, max_size=m))
    if draw(st.integers(0, 7)) == 0:
        tgt = list(src)  # a list matched against itself
    tb = ts * draw(st.sampled_from([2.0**-6, 2.0**-3, 1.0]))
    fb = fs * draw(st.sampled_from([2.0**-6, 2.0**-3, 1.0]))
    return {"pool": pool, "src": src, "tgt": tgt, "tb": tb, "fb": fb}


@st.composite
def contention_case(draw):
    """Dense positive affinity matrices: heavily overlapping intervals / boxes / polygons in one cluster, so that the
    best single pair is often not part of the optimal assignment (greedy != optimal)."""
    n = draw(st.integers(2, 5))
    m = draw(st.integers(2, 5))
    kind = draw(st.sampled_from(["TimeInterval", "BoundingBox", "mixed", "time_mixed", "near_tie", "time_only_near_zero", "vanishing"]))
    ts = draw(st.sampled_from([2.0**-3, 1.0, 8.0]))
    fs = draw(st.sampled_from([128.0, 8192.0]))

    def one():
        a = draw(st.integers(0, 24)) / 8
        ln = draw(st.integers(8, 40)) / 8
        k = kind if kind not in ("mixed", "time_mixed") else draw(st.sampled_from(["TimeInterval", "BoundingBox", "LineString"]))
        if kind == "time_mixed":
            # time-only geometries next to boxes with exactly the same time extent (cross-kind affinity exactly 1) and duplicates
            a = draw(st.sampled_from([0.0, 0.0, 1.0, 2.0]))
            ln = draw(st.sampled_from([1.0, 1.0, 0.875, 2.0]))
            k = draw(st.sampled_from(["TimeInterval", "BoundingBox", "BoundingBox"]))
        if k == "TimeInterval":
            c = [ts * a, ts * (a + ln)]
        elif k == "BoundingBox":
            lo = draw(st.integers(0, 16)) / 8
            hi = lo + draw(st.integers(8, 32)) / 8
            c = [ts * a, fs * lo, ts * (a + ln), fs * hi]
        else:
            c = [[ts * a, fs * 1.0], [ts * (a + ln), fs * 2.0]]
        return {"type": k, "coordinates": c, "meta": {}}

    if kind == "time_only_near_zero":
        # nothing but time stamps and time intervals, within a few buffers of time 0 (the buffered start is clamped at 0)
        tb = ts / 8

        def tone():
            a = tb * draw(st.integers(0, 12)) / 4
            if draw(st.booleans()):
                return {"type": "TimeStamp", "coordinates": a, "meta": {}}
            return {"type": "TimeInterval", "coordinates": [a, a + tb * draw(st.integers(1, 12)) / 4], "meta": {}}

        pool = [tone() for _ in range(n + m)]
        return {"pool": pool, "src": list(range(n)), "tgt": list(range(n, n + m)), "tb": tb, "fb": fs / 8}
    if kind == "vanishing":
        # a very long annotation (a whole deployment: 2^30 .. 2^40 s) against clicks shorter than a sample: their affinities are positive
        # but far below one ulp of 1 (1e-17 and less); next to them geometries that start after the long one ends (affinity exactly 0)
        huge = 2.0 ** draw(st.sampled_from([30, 34, 40]))
        tb = 2.0**-24
        long_kind = draw(st.sampled_from(["TimeInterval", "BoundingBox"]))
        long_g = {"type": long_kind, "coordinates": [0.0, huge] if long_kind == "TimeInterval" else [0.0, 0.0, huge, 4096.0], "meta": {}}

        def click(inside):
            a = (0.0 if inside else huge + 16.0) + draw(st.integers(0, 64)) * 2.0**-10  # inside: near time 0, where floats resolve a click
            ln = 2.0 ** draw(st.sampled_from([-30, -24, -20]))
            if long_kind == "TimeInterval":
                return {"type": "TimeInterval", "coordinates": [a, a + ln], "meta": {}}
            return {"type": "BoundingBox", "coordinates": [a, 1024.0, a + ln, 2048.0], "meta": {}}

        others = [click(draw(st.booleans())) for _ in range(draw(st.integers(1, 3)))] + [click(True), click(False)]
        others = draw(st.permutations(others))
        pool = [long_g] + list(others)
        a_side, b_side = [0], list(range(1, len(pool)))
        if draw(st.booleans()):
            a_side, b_side = b_side, a_side
        return {"pool": pool, "src": a_side, "tgt": b_side, "tb": tb, "fb": 8.0}
    if kind == "near_tie":
        # all geometries overlap each other and two complete pairings have totals that differ by 1e-8 .. 1e-6 (not exactly tied):
        # intervals on the grid whose ends are moved by a few tenths of a microsecond
        n = m = draw(st.integers(2, 3))
        eps = lambda: ts * draw(st.integers(-40, 40)) * 1e-7  # noqa: E731
        src = [{"type": "TimeInterval", "coordinates": [ts * 2.0 * i, ts * (2.0 * i + 1.0)], "meta": {}} for i in range(n)]
        tgt = [{"type": "TimeInterval", "coordinates": [max(0.0, ts * 0.5 + eps()), ts * (2.0 * (n - 1) + 0.5) + eps()], "meta": {}} for _ in range(m)]
        return {"pool": src + tgt, "src": list(range(n)), "tgt": list(range(n, n + m)), "tb": ts / 8, "fb": fs / 8}
    pool = [one() for _ in range(n + m)]
    return {"pool": pool, "src": list(range(n)), "tgt": list(range(n, n + m)), "tb": ts / 8, "fb": fs / 8}


def case6():
    return case(maxn=6)


@st.composite
def spike_case(draw):
    """Lines that turn back in time ('>' and '<' shapes: valid, the validator only orders the first and the last vertex) next to a
    small geometry a few buffers beyond the turning point: the mitre join of the buffered line reaches up to ~5 buffers past the
    vertex, so the pair overlaps although the raw time extents are more than two buffers apart."""
    ts = draw(st.sampled_from([2.0**-3, 1.0, 8.0]))
    fs = draw(st.sampled_from([128.0, 1024.0]))
    tb, fb = ts / 8, fs / 8
    t_turn = ts * draw(st.integers(8, 24)) / 8
    leg = tb * draw(st.sampled_from([1.0, 2.0, 4.0, 8.0]))
    gap = fb * draw(st.sampled_from([0.5, 1.0, 2.0, 4.0]))
    f_mid = fs * draw(st.integers(8, 24)) / 8
    right = draw(st.booleans())  # '>' : the turning point is the latest time; '<' : the earliest
    far, near = (t_turn - leg, t_turn) if right else (t_turn + leg, t_turn)
    kline = draw(st.sampled_from(["LineString", "MultiLineString"]))
    # a LineString may end at the time it started; a line of a MultiLineString must end strictly later
    line = [[far, f_mid - gap], [near, f_mid], [far + (tb / 16 if (kline == "MultiLineString" or draw(st.booleans())) else 0.0), f_mid + gap]]
    gline = {"type": kline, "coordinates": line if kline == "LineString" else [line], "meta": {}}
    d = tb * draw(st.integers(1, 28)) / 4  # distance of the other geometry from the turning point
    kk = draw(st.sampled_from(["BoundingBox", "TimeStamp", "Point", "TimeInterval"]))
    t0 = near + d if right else max(0.0, near - d)
    w = tb * draw(st.sampled_from([0.25, 1.0]))
    a, b = (t0, t0 + w) if right else (max(0.0, t0 - w), t0)
    if kk == "BoundingBox":
        other = {"type": kk, "coordinates": [a, f_mid - fb / 2, b, f_mid + fb / 2], "meta": {}}
    elif kk == "TimeInterval":
        other = {"type": kk, "coordinates": [a, b], "meta": {}}
    elif kk == "TimeStamp":
        other = {"type": kk, "coordinates": t0, "meta": {}}
    else:
        other = {"type": kk, "coordinates": [t0, f_mid], "meta": {}}
    pool = [gline, other]
    for _ in range(draw(st.integers(0, 2))):
        aa = ts * draw(st.integers(0, 32)) / 8
        pool.append({"type": "BoundingBox", "coordinates": [aa, f_mid - fs, aa + ts * draw(st.integers(1, 8)) / 8, f_mid + fs], "meta": {}})
    idx = list(range(len(pool)))
    src = [0] + draw(st.lists(st.sampled_from(idx), max_size=2))
    tgt = [1] + draw(st.lists(st.sampled_from(idx), max_size=2))
    if draw(st.booleans()):
        src, tgt = tgt, src
    return {"pool": pool, "src": draw(st.permutations(src)), "tgt": draw(st.permutations(tgt)), "tb": tb, "fb": fb}


def brute_best(mat, n, m):
    """Maximum total affinity over all one-to-one partial pairings (zero entries never help)."""
    if n == 0 or m == 0:
        return 0.0
    best = 0.0
    small, big, transpose = (n, m, False) if n <= m else (m, n, True)
    # assign each row of the smaller side to a distinct column (or to nothing = use a zero)
    cols = list(range(big)) + [None] * small
    seen = set()
    for perm in itertools.permutations(cols, small):
        key = perm
        if key in seen:
            continue
        seen.add(key)
        tot = 0.0
        for i, j in enumerate(perm):
            if j is None:
                continue
            tot += mat[j][i] if transpose else mat[i][j]
        if tot > best:
            best = tot
    return best


def brute_best_dp(mat, n, m):
    """Same optimum by DP over subsets of columns (fast for up to 6x6)."""
    from functools import lru_cache

    @lru_cache(maxsize=None)
    def go(i, used):
        if i == n:
            return 0.0
        best = go(i + 1, used)
        for j in range(m):
            if not used & (1 << j) and mat[i][j] > 0:
                v = mat[i][j] + go(i + 1, used | (1 << j))
                if v > best:
                    best = v
        return best

    return go(0, 0)


def check(spec, ctx):
    from soundevent import data
    from soundevent.evaluation import compute_affinity, match_geometries

    pool = [data.geometry_validate(geom_dict(g), mode="dict") for g in spec["pool"]]
    src = [pool[i] for i in spec["src"]]
    tgt = [pool[i] for i in spec["tgt"]]
    n, m = len(src), len(tgt)
    tb, fb = spec["tb"], spec["fb"]
    mat = [[compute_affinity(s, t, time_buffer=tb, freq_buffer=fb) for t in tgt] for s in src]
    flat = [x for row in mat for x in row]
    nontrivial = n >= 2 and m >= 2 and any(x == 0 for x in flat) and any(x > 0 for x in flat)
    ties = len(set(spec["src"])) < n or len(set(spec["tgt"])) < m
    from vf.core import snapshot

    before = snapshot((src, tgt))
    out = ctx.call(spec, f"match_geometries({n}x{m})", lambda: list(match_geometries(src, tgt, time_buffer=tb, freq_buffer=fb)))
    ctx.unchanged(spec, "match_geometries: source / target lists", before, (src, tgt))
    again = list(match_geometries(src, tgt, time_buffer=tb, freq_buffer=fb))
    if [(a, b, c) for a, b, c in again] != [(a, b, c) for a, b, c in out]:
        ctx.fail("match_geometries gives a different answer when called again with the same arguments", spec, again, out, kind="not_repeatable")
    ctx.case(spec, nontrivial=nontrivial, labels=[f"size={n}x{m}", "ties" if ties else "noties", "allzero" if flat and not any(flat) else "mixed"], out={"matches": [[a, b, c] for a, b, c in out]})

    # the same call with the buffers passed positionally (documented order: source, target, time_buffer, freq_buffer), with tuples
    # instead of lists, and - when both sides list the same pool entries - with one list object on both sides
    pos = list(match_geometries(src, tgt, tb, fb))
    if pos != out:
        ctx.fail("match_geometries(source, target, tb, fb) with positional buffers differs from the keyword call", spec, pos, out, kind="positional")
    tup = list(match_geometries(tuple(src), tuple(tgt), time_buffer=tb, freq_buffer=fb))
    if tup != out:
        ctx.fail("match_geometries on tuples differs from the call on lists", spec, tup, out, kind="tuple_inputs")
    from vf.core import SeqView
    import collections as _c

    for how, S in (("a custom Sequence", SeqView), ("deques", _c.deque)):
        alt = list(match_geometries(S(src), S(tgt), time_buffer=tb, freq_buffer=fb))
        if alt != out:
            ctx.fail(f"match_geometries on {how} differs from the call on lists", spec, alt, out, kind="sequence_inputs")
    if spec["src"] == spec["tgt"]:
        same = list(match_geometries(src, src, time_buffer=tb, freq_buffer=fb))
        if same != out:
            ctx.fail("match_geometries(x, x) with one list object on both sides differs from the call with two equal lists", spec, same, out, kind="same_list_object")
        ctx.label("same_list_object")
    # two results alive at the same time (match_geometries is lazy): the same question asked twice and one asked the other way round,
    # consumed in lock step, give what the calls give one after the other
    import itertools as _it

    gen_a = match_geometries(src, tgt, time_buffer=tb, freq_buffer=fb)
    gen_b = match_geometries(tgt, src, time_buffer=tb, freq_buffer=fb)
    lock_a, lock_b = [], []
    for xa, xb in _it.zip_longest(gen_a, gen_b):
        if xa is not None:
            lock_a.append(xa)
        if xb is not None:
            lock_b.append(xb)
    seq_b = list(match_geometries(tgt, src, time_buffer=tb, freq_buffer=fb))
    if lock_a != out or lock_b != seq_b:
        ctx.fail("two match_geometries results consumed in lock step differ from the same calls made one after the other", spec, [lock_a, lock_b], [out, seq_b], kind="interleaved")
    # ... and so do two calls running in two threads: this call is suspended at lines inside the library while another thread
    # matches the reversed lists the other way round (the schedule is owned by the harness, see vf.core.run_interleaved)
    ctx.interleave(
        spec,
        "match_geometries",
        lambda: list(match_geometries(src, tgt, time_buffer=tb, freq_buffer=fb)),
        lambda: list(match_geometries(tgt[::-1], src[::-1], time_buffer=fb and tb * 2, freq_buffer=fb)),
        every=6,
        max_pauses=24,
    )
    # omitted buffers mean the documented defaults (0.01 s, 100 Hz)
    if n * m <= 9:
        d1 = [(a, b, c) for a, b, c in match_geometries(src, tgt)]
        d2 = [(a, b, c) for a, b, c in match_geometries(src, tgt, time_buffer=0.01, freq_buffer=100)]
        if d1 != d2:
            ctx.fail("match_geometries without buffers differs from the documented defaults (0.01, 100)", spec, d1, d2, kind="defaults")
    seen_s, seen_t = [], []
    total = 0.0
    for item in out:
        if len(item) != 3:
            ctx.fail(f"match is not a triple: {item!r}", spec, item, None, kind="shape")
        s, t, a = item
        if s is None and t is None:
            ctx.fail("match with neither source nor target", spec, item, None, kind="shape")
        if s is not None:
            seen_s.append(int(s))
        if t is not None:
            seen_t.append(int(t))
        if s is not None and t is not None:
            ref = mat[int(s)][int(t)]
            if not ref > 0:
                ctx.fail(f"source {s} paired with target {t} although their affinity is {ref} (not positive)", spec, [s, t, a], "unpaired", kind="zero_pair")
            if a != ref:
                ctx.fail(f"pair ({s},{t}) reports affinity {a}, the affinity of that pair is {ref}", spec, a, ref, kind="reported_affinity")
            total += a
        else:
            if a != 0:
                ctx.fail(f"unpaired entry ({s},{t}) reports affinity {a}, expected 0", spec, a, 0, kind="reported_affinity")
    if sorted(seen_s) != list(range(n)):
        ctx.fail(f"source indices mentioned {sorted(seen_s)}, expected each of 0..{n - 1} exactly once", spec, sorted(seen_s), list(range(n)), kind="cover")
    if sorted(seen_t) != list(range(m)):
        ctx.fail(f"target indices mentioned {sorted(seen_t)}, expected each of 0..{m - 1} exactly once", spec, sorted(seen_t), list(range(m)), kind="cover")
    # an optimal pairing leaves no source and target unpaired that overlap: pairing them too would add their (positive) affinity,
    # however small it is - this consequence of optimality needs no tolerance
    free_s = [int(s) for s, t, _ in out if t is None and s is not None]
    free_t = [int(t) for s, t, _ in out if s is None and t is not None]
    for s_ in free_s:
        for t_ in free_t:
            if mat[s_][t_] > 0:
                ctx.fail(f"source {s_} and target {t_} are both left unpaired although their affinity {mat[s_][t_]!r} is positive: pairing them as well gives a larger total", spec, [s_, t_, mat[s_][t_]], "paired", kind="not_maximal")
    best = brute_best_dp(tuple(tuple(r) for r in mat), n, m)
    if n * m <= 16:  # cross-check the DP with plain enumeration on the small cases
        b2 = brute_best(mat, n, m)
        if abs(b2 - best) > 1e-12:
            raise AssertionError("oracle self-check failed: DP and enumeration disagree")
    if abs(total - best) > 1e-9:
        ctx.fail(f"total reported affinity {total} is not the maximum {best} over one-to-one pairings", spec, total, best, kind="optimal")

    # lists of geometries derived from the ones just matched (copies with moved coordinates; the same objects after re-assignment)
    # are matched like freshly built lists
    from vf.oracles.shp import shift_spec_time

    step = max(tb, 2.0**-10) * 3
    try:
        fresh_pool = [data.geometry_validate({"type": g.type, "coordinates": shift_spec_time(g.type, g.coordinates, step * (i % 3))}, mode="dict") for i, g in enumerate(pool)]
    except ValueError:
        return
    want = ctx.call(spec, "match_geometries(freshly built moved lists)", lambda: list(match_geometries([fresh_pool[i] for i in spec["src"]], [fresh_pool[i] for i in spec["tgt"]], time_buffer=tb, freq_buffer=fb)))
    der_pool = [g.model_copy(update={"coordinates": f.coordinates}) for g, f in zip(pool, fresh_pool)]
    got_d = list(match_geometries([der_pool[i] for i in spec["src"]], [der_pool[i] for i in spec["tgt"]], time_buffer=tb, freq_buffer=fb))
    if got_d != want:
        ctx.fail("copies derived (model_copy(update=coordinates)) from matched geometries are matched differently from freshly built geometries with the same coordinates", spec, got_d, want, kind="stale_derived")
    for g, f in zip(pool, fresh_pool):
        g.coordinates = f.coordinates
    got_a = list(match_geometries(src, tgt, time_buffer=tb, freq_buffer=fb))
    if got_a != want:
        ctx.fail("geometries whose coordinates were re-assigned after a first call are matched differently from freshly built ones", spec, got_a, want, kind="stale_after_assignment")


SUBS = [
    Sub("contention", check, strategy=contention_case, quick=1500, thorough=40000, min_nontrivial=0.0),
    Sub("cover_and_optimal", check, strategy=case, quick=2400, thorough=60000, min_nontrivial=0.15),
    Sub("cover_and_optimal_6", check, strategy=case6, quick=300, thorough=20000, min_nontrivial=0.15),
    Sub("mitre_spike", check, strategy=spike_case, quick=1500, thorough=30000, min_nontrivial=0.0),
]
