"""C19 - tag encoding projects faithfully onto the vocabulary; equal objects hash equally."""

from __future__ import annotations

import copy
import itertools
import math

import numpy as np
from hypothesis import strategies as st

from vf.core import Sub

PROP = "C19"
TECHNIQUE = "exhaustive enumeration of small vocabularies x tag lists over a collision-engineered term pool (same name / same label / equal copies) against a linear-search reference + Hypothesis random vocabularies; pairwise hash/equality law over generated variants of the eight hand-hashed classes"
LEVEL_TEXT = (
    "All 65 ordered vocabularies of distinct tags from a pool of 4 x all tag lists of length <= 3 over 7 candidates (4 pool tags, an equal copy, 2 "
    "out-of-vocabulary tags) x score patterns are enumerated completely; encode/decode, classification_encoding, multilabel_encoding and "
    "prediction_encoding are compared with a linear search using == on tags, and removing out-of-vocabulary tags must change nothing. Random vocabularies "
    "of up to 12 tags extend this. For Term, Tag, Feature, Note, SoundEvent, SoundEventAnnotation, SoundEventPrediction and ClipPrediction every generated pair "
    "(object, deep copy, re-validated dump, single-field variants incl. float round-off neighbours, signed zero, int/float) that compares equal must hash equally "
    "and be interchangeable as set member / dict key. Exhaustive for the small space, exploration beyond."
)
LEVEL_NOTE = "reference = linear search with ==; repeated in-vocabulary predicted tags with different scores are counted, not asserted (the statement does not order them)"
RULE = (
    "Enumeration: vocabulary = ordered selection of distinct tags from {A=(T1,a), B=(T2,a) same term name other label, C=(T3,a) same label other name, D=(T1,b)}; "
    "lists over those plus A' (structurally equal copy of A), E=(T1,zz) and F=(other term,a); scores from {0, 0.25, 1}. Non-trivial (encoding) = the list has a repeat or an "
    "out-of-vocabulary member and at least one in-vocabulary member; (hash law) = an equal pair of distinct objects."
)
ASSUMPTIONS = ["vocabulary tags are pairwise distinct (==)", "scores are exactly representable in float32 (k/64 grid)"]
EXHAUSTIVE = True

_POOL = {}


def pool():
    from soundevent import data

    if not _POOL:
        T1 = data.Term(name="ns:one", label="Species", definition="d1")
        T2 = data.Term(name="ns:one", label="Species (custom)", definition="d1")
        T3 = data.Term(name="ns:three", label="Species", definition="d1")
        T1c = data.Term(name="ns:one", label="Species", definition="d1")
        T9 = data.Term(name="ns:nine", label="Other", definition="d9")
        _POOL["tags"] = [
            data.Tag(term=T1, value="a"),  # 0 A
            data.Tag(term=T2, value="a"),  # 1 B
            data.Tag(term=T3, value="a"),  # 2 C
            data.Tag(term=T1, value="b"),  # 3 D
            data.Tag(term=T1c, value="a"),  # 4 A' == A
            data.Tag(term=T1, value="zz"),  # 5 E  (never in a vocabulary)
            data.Tag(term=T9, value="a"),  # 6 F  (never in a vocabulary)
        ]
        _POOL["unicode"] = [data.Tag(term=T1, value="Pin\u0303on"), data.Tag(term=T1, value="Pi\u00f1on"), data.Tag(term=T1, value="\ufb01sh"), data.Tag(term=T1, value="fish"), data.Tag(term=T1, value="A"), data.Tag(term=T1, value="a")]
    return _POOL["tags"]


def enum_small(tier):
    out = []
    score_sets = {0: [[]], 1: [[s] for s in (0.0, 0.25, 1.0)], 2: [list(p) for p in itertools.product((0.0, 0.25, 1.0), repeat=2)], 3: [[0.25, 1.0, 0.0], [1.0, 0.25, 0.25], [0.0, 0.0, 1.0]]}
    for k in range(0, 5):
        for vocab in itertools.permutations(range(4), k):
            for n in range(0, 4):
                for tags in itertools.product(range(7), repeat=n):
                    for sc in score_sets[n]:
                        out.append({"vocab": list(vocab), "tags": list(tags), "scores": sc})
    return out


@st.composite
def random_case(draw):
    from soundevent import data  # noqa: F401

    nterm = draw(st.integers(1, 5))
    # "stub" = the key-only term that data.term_from_key(label) makes (what Tag(key=...) and an AOEF reload produce): it shares its
    # label with fully specified terms of the same label but is a different term
    # third entry: an additional (undeclared) attribute of the term - terms that differ only there are different terms
    terms = [[draw(st.sampled_from(["n1", "n2", "n3", "stub"])), draw(st.sampled_from(["L1", "L2", "L3"])), draw(st.sampled_from([None, None, "1", "2"]))] for _ in range(nterm)]
    cand = [[draw(st.integers(0, nterm - 1)), draw(st.sampled_from(["a", "b", "c", ""]))] for _ in range(draw(st.integers(1, 14)))]
    nv = draw(st.integers(0, min(12, len(cand))))
    tags = draw(st.lists(st.integers(0, len(cand) - 1), min_size=0, max_size=10))
    scores = [draw(st.integers(0, 64)) / 64 for _ in tags]
    return {"terms": terms, "cand": cand, "nvocab": nv, "tags": tags, "scores": scores}


def _check_encoding(spec, ctx, all_tags, vocab, tags, scores):
    from soundevent import data
    from soundevent.evaluation import encoding

    from vf.core import snapshot

    vocab_before = snapshot(vocab)
    # another encoder over a different vocabulary is created first and a third one afterwards: encoders must be independent
    other_vocab = [t for t in all_tags if all(t != v for v in vocab)][:3] + list(vocab[:1])
    dedup = []
    for t in other_vocab:
        if all(t != d for d in dedup):
            dedup.append(t)
    enc_before = encoding.create_tag_encoder(dedup)
    enc = ctx.call(spec, "create_tag_encoder", encoding.create_tag_encoder, vocab)
    enc_after = encoding.create_tag_encoder(dedup[::-1])
    for t in all_tags:
        exp_b = next((i for i, v in enumerate(dedup) if v == t), None)
        exp_a = next((i for i, v in enumerate(dedup[::-1]) if v == t), None)
        if enc_before.encode(t) != exp_b or enc_after.encode(t) != exp_a:
            ctx.fail("encoders over different vocabularies influence each other", spec, [enc_before.encode(t), enc_after.encode(t)], [exp_b, exp_a], kind="encoder_shared_state")

    def ref_encode(t):
        for i, v in enumerate(vocab):
            if v == t:
                return i
        return None

    in_vocab = [ref_encode(t) for t in tags]
    has_oov = any(i is None for i in in_vocab)
    repeat = len([i for i in in_vocab if i is not None]) != len({i for i in in_vocab if i is not None})
    ctx.case(spec, nontrivial=(has_oov or repeat) and any(i is not None for i in in_vocab), labels=[f"|V|={len(vocab)}", f"|tags|={len(tags)}", "oov" if has_oov else "all_in", "repeat" if repeat else "norepeat"])

    if enc.num_classes != len(vocab):
        ctx.fail(f"encoder.num_classes = {enc.num_classes}, vocabulary has {len(vocab)} tags", spec, enc.num_classes, len(vocab), kind="num_classes")
    for t in all_tags:
        got, exp = enc.encode(t), ref_encode(t)
        if got != exp:
            ctx.fail(f"encode({t.term.name}|{t.term.label}={t.value!r}) = {got}, expected {exp} (index of the equal vocabulary tag, or None)", spec, got, exp, kind="encode")
    for i, v in enumerate(vocab):
        d = enc.decode(i)
        if d != v:
            ctx.fail(f"decode({i}) is not the {i}-th vocabulary tag", spec, str(d), str(v), kind="decode")
        if enc.encode(d) != i:
            ctx.fail(f"encode(decode({i})) = {enc.encode(d)}", spec, enc.encode(d), i, kind="decode_encode")

    # one long-lived encoder asked about short-lived tags (built for the question and dropped, as a prediction loop does): the answer
    # depends on what the tag IS, not on which object (or which recycled address) carries it
    for _ in range(2):
        for t in all_tags:
            got = enc.encode(data.Tag(term=t.term, value=t.value))
            if got != ref_encode(t):
                ctx.fail(f"encode of a temporary tag equal to {t.term.name}|{t.term.label}={t.value!r} = {got}, expected {ref_encode(t)}", spec, got, ref_encode(t), kind="encode_temporary")
        for t in reversed(all_tags):
            got = enc.encode(t.model_copy(deep=True))
            if got != ref_encode(t):
                ctx.fail(f"encode of a temporary deep copy of {t.term.name}|{t.term.label}={t.value!r} = {got}, expected {ref_encode(t)}", spec, got, ref_encode(t), kind="encode_temporary")
    ctx.unchanged(spec, "create_tag_encoder: the vocabulary list", vocab_before, vocab)
    exp_cls = next((i for i in in_vocab if i is not None), None)
    got_cls = encoding.classification_encoding(tags, enc)
    if got_cls != exp_cls:
        ctx.fail(f"classification_encoding = {got_cls}, index of the first in-vocabulary tag is {exp_cls}", spec, got_cls, exp_cls, kind="classification")
    exp_ml = np.zeros(len(vocab), dtype=np.int64)
    for i in in_vocab:
        if i is not None:
            exp_ml[i] = 1
    got_ml = encoding.multilabel_encoding(tags, enc)
    if got_ml.shape != (len(vocab),) or not np.array_equal(got_ml, exp_ml):
        ctx.fail(f"multilabel_encoding = {got_ml.tolist()}, indicator vector is {exp_ml.tolist()}", spec, got_ml.tolist(), exp_ml.tolist(), kind="multilabel")
    ptags = [data.PredictedTag(tag=t, score=s) for t, s in zip(tags, scores)]
    got_p = encoding.prediction_encoding(ptags, enc)
    if got_p.shape != (len(vocab),):
        ctx.fail(f"prediction_encoding has shape {got_p.shape}", spec, list(got_p.shape), [len(vocab)], kind="prediction")
    by_idx = {}
    for i, s in zip(in_vocab, scores):
        if i is not None:
            by_idx.setdefault(i, set()).add(s)
    for i in range(len(vocab)):
        ss = by_idx.get(i)
        if ss is None:
            exp = 0.0
        elif len(ss) == 1:
            exp = next(iter(ss))
        else:
            ctx.label("repeated_predicted_tag_with_different_scores_not_asserted")
            if float(got_p[i]) not in {float(np.float32(s)) for s in ss}:
                ctx.fail(f"prediction_encoding[{i}] = {got_p[i]} is none of the scores {sorted(ss)} predicted for that tag", spec, float(got_p[i]), sorted(ss), kind="prediction")
            continue
        if float(got_p[i]) != float(np.float32(exp)):
            ctx.fail(f"prediction_encoding[{i}] = {got_p[i]}, expected {exp}", spec, got_p.tolist(), exp, kind="prediction")
    # results belong to the caller: a later call must not overwrite an earlier result
    keep_ml, keep_p = got_ml.copy(), got_p.copy()
    others = list(reversed(all_tags))[: max(1, len(all_tags) // 2)]
    encoding.multilabel_encoding(others, enc)
    encoding.prediction_encoding([data.PredictedTag(tag=t, score=1.0) for t in others], enc)
    if not np.array_equal(got_ml, keep_ml) or not np.array_equal(got_p, keep_p):
        ctx.fail("an earlier multilabel / prediction encoding changed after the function was called again (results share a buffer)", spec, [got_ml.tolist(), got_p.tolist()], [keep_ml.tolist(), keep_p.tolist()], kind="result_aliased")
    # two threads encoding against two vocabularies: this one is suspended at lines inside the library while the other thread builds
    # its own encoder over the other vocabulary and encodes with it
    def encode_all(voc):
        e = encoding.create_tag_encoder(voc)
        return ([e.encode(t) for t in all_tags], encoding.classification_encoding(tags, e), encoding.multilabel_encoding(tags, e).tolist(), encoding.prediction_encoding(ptags, e).tolist())

    ctx.interleave(spec, "create_tag_encoder / *_encoding", lambda: encode_all(vocab), lambda: encode_all(dedup[::-1]), every=(97 if ctx.sub.startswith("encoding_small") else 6), max_pauses=40)
    # out-of-vocabulary tags never influence any result
    kept = [(t, s) for t, s, i in zip(tags, scores, in_vocab) if i is not None]
    kt = [t for t, _ in kept]
    if encoding.classification_encoding(kt, enc) != got_cls:
        ctx.fail("removing out-of-vocabulary tags changes classification_encoding", spec, None, None, kind="oov_influence")
    if not np.array_equal(encoding.multilabel_encoding(kt, enc), got_ml):
        ctx.fail("removing out-of-vocabulary tags changes multilabel_encoding", spec, None, None, kind="oov_influence")
    if not np.array_equal(encoding.prediction_encoding([data.PredictedTag(tag=t, score=s) for t, s in kept], enc), got_p):
        ctx.fail("removing out-of-vocabulary tags changes prediction_encoding", spec, None, None, kind="oov_influence")


def check_small(spec, ctx):
    tags = pool()
    _check_encoding(spec, ctx, tags, [tags[i] for i in spec["vocab"]], [tags[i] for i in spec["tags"]], spec["scores"])
    if len(spec["vocab"]) <= 1 and len(spec["tags"]) <= 1:
        # unicode look-alikes (canonically equivalent but distinct strings) are distinct tags
        u = _POOL["unicode"]
        for k in range(len(u)):
            vocab_u = [u[k]] + [tags[i] for i in spec["vocab"] if tags[i] != u[k]]
            _check_encoding(spec, ctx, u, vocab_u, [u[(k + 1) % len(u)], u[k]], [0.25, 1.0])


def check_random(spec, ctx):
    from soundevent import data

    terms = [
        data.term_from_key(t_[1]) if t_[0] == "stub" else data.Term(name=f"ns:{t_[0]}", label=t_[1], definition="d", **({"version": t_[2]} if len(t_) > 2 and t_[2] else {}))
        for t_ in spec["terms"]
    ]
    cand = [data.Tag(term=copy.deepcopy(terms[i]) if k % 2 else terms[i], value=v) for k, (i, v) in enumerate(spec["cand"])]
    vocab = []
    for t in cand:
        if len(vocab) >= spec["nvocab"]:
            break
        if all(t != v for v in vocab):
            vocab.append(t)
    tags = [cand[i] for i in spec["tags"]]
    _check_encoding(spec, ctx, cand, vocab, tags, spec["scores"])


# ---------------------------------------------------------------------------------------------
# hash law

CLASSES = ["Term", "Tag", "Feature", "Note", "SoundEvent", "SoundEventAnnotation", "SoundEventPrediction", "ClipPrediction"]
FLOATS = [0.0, -0.0, 1.0, 0.3, 0.1 + 0.2, 0.30000000000000004, 1e-12, 1 + 1e-12, 2.5, 1e300, "nan", "nan"]  # "nan": a missing measurement (NaN travels as text in the JSON spec)


TERM_EXTRA = {
    "definition": ["d", "another definition"], "uri": [None, "http://rs.tdwg.org/dwc/terms/scientificName", "http://example.org/other"],
    "type_of_term": ["property", "class"], "comment": [None, "c"], "see": [None, "http://example.org/see"], "subproperty_of": [None, "p"],
    "subclass_of": [None, "q"], "domain": [None, "dom"], "domain_includes": [None, "inc"],
}


@st.composite
def term_extras(draw):
    """Optional Term fields for both sides: side b repeats side a except for 0-2 fields (objects that agree on most fields are
    the ones an equality shortcut - same uri, same name - would wrongly identify)"""
    a = {k: draw(st.sampled_from(v)) for k, v in TERM_EXTRA.items()} if draw(st.booleans()) else {"definition": "d"}
    b = dict(a)
    for k in draw(st.lists(st.sampled_from(sorted(TERM_EXTRA)), min_size=0, max_size=2, unique=True)):
        b[k] = draw(st.sampled_from(TERM_EXTRA[k]))
    # additional attributes (Term allows extras): the same attributes given in another keyword order are the same term
    if draw(st.integers(0, 2)) == 0:
        xs = [["vocabulary", draw(st.sampled_from(["dwc", "ac"]))], ["version", draw(st.sampled_from(["1", "2"]))], ["status", "recommended"]][: draw(st.integers(1, 3))]
        a["__extras__"] = xs
        b["__extras__"] = draw(st.sampled_from([xs, xs[::-1], xs[::-1], xs[:-1]]))
    return [a, b]


@st.composite
def hash_case(draw):
    cls = draw(st.sampled_from(CLASSES))
    fa = draw(st.sampled_from(FLOATS))
    near = {0.3: 0.1 + 0.2, 0.1 + 0.2: 0.3, 1.0: 1 + 1e-12, 1 + 1e-12: 1.0, 0.0: -0.0, 2.5: 2.5000000000000004, 1e-12: 1.0000000000000002e-12, 1e300: 1.0000000000000002e300}
    fb = draw(st.sampled_from([fa, near.get(fa, fa), near.get(fa, fa), draw(st.sampled_from(FLOATS))]))  # equal, a round-off neighbour, or anything
    name_a, label_a, value_a = draw(st.sampled_from(["n1", "n2"])), draw(st.sampled_from(["L1", "L2"])), draw(st.sampled_from(["a", "b", ""]))
    same = draw(st.booleans())  # the two sides agree on name / label / value more often than independent draws would
    return {
        "term_extra": draw(term_extras()),
        "cls": cls,
        "uuid_a": draw(st.integers(1, 3)),
        "uuid_b": draw(st.integers(1, 3)),
        "name_a": name_a, "name_b": name_a if same else draw(st.sampled_from(["n1", "n2"])),
        "label_a": label_a, "label_b": label_a if same else draw(st.sampled_from(["L1", "L2"])),
        "value_a": value_a, "value_b": value_a if same else draw(st.sampled_from(["a", "b", ""])),
        "fa": fa, "fb": fb,
        "int_b": draw(st.booleans()),
        # the same instant written with different UTC offsets (aware datetimes compare by instant); None = naive
        "tz_a": draw(st.sampled_from([None, None, 0, 1, -5])), "tz_b": draw(st.sampled_from([None, None, 0, 1, -5])),
        "payload_a": draw(st.integers(0, 2)), "payload_b": draw(st.integers(0, 2)),
        "variant": draw(st.sampled_from(["independent", "deepcopy", "revalidate", "same_fields", "copy_update", "copy_update", "assign", "json_roundtrip", "dict_roundtrip", "explicit_defaults"])),  # revalidate = pydantic model_copy(deep=True)
    }


def _make(spec, side):
    import uuid as uuidlib

    from soundevent import data

    s = "_" + side
    cls = spec["cls"]
    uid = str(uuidlib.UUID(int=spec["uuid" + s]))
    extra = dict((spec.get("term_extra") or [{"definition": "d"}, {"definition": "d"}])[0 if side == "a" else 1])
    more = extra.pop("__extras__", [])
    if not set(extra) <= set(TERM_EXTRA) or "definition" not in extra or any(len(kv) != 2 or kv[0] not in ("vocabulary", "version", "status") for kv in more) or len({kv[0] for kv in more}) != len(more):
        raise ValueError("malformed spec")
    term = data.Term(name=spec["name" + s], label=spec["label" + s], **{k: v for k, v in extra.items() if v is not None}, **{k: v for k, v in more})
    f = spec["f" + side[-1]]
    if isinstance(f, str):
        f = float(f)
    if side == "b" and spec["int_b"] and f == f and float(int(f)) == f and abs(f) < 1e9:
        f = int(f)
    payload = spec["payload" + s]
    rec = data.Recording(uuid=str(uuidlib.UUID(int=99)), path="r.wav", duration=1.0 + payload, channels=1, samplerate=8000)
    if cls == "Term":
        return term
    if cls == "Tag":
        return data.Tag(term=term, value=spec["value" + s])
    if cls == "Feature":
        return data.Feature(term=term, value=f)
    tz = spec.get("tz" + s)
    if tz not in (None, 0, 1, -5):
        raise ValueError("malformed spec")
    created = "2020-01-01T12:00:00" if tz is None else f"2020-01-01T{12 + tz:02d}:00:00{'+' if tz >= 0 else '-'}{abs(tz):02d}:00"
    if cls == "Note":
        return data.Note(uuid=uid, message=spec["value" + s], created_on=created, is_issue=bool(payload % 2))
    se = data.SoundEvent(uuid=uid, recording=rec, geometry=data.TimeStamp(coordinates=abs(f) if (f == f and abs(f) < 1e9) else 1.0), features=[data.Feature(term=term, value=1.0)] if payload else [])
    if cls == "SoundEvent":
        return se
    if cls == "SoundEventAnnotation":
        return data.SoundEventAnnotation(uuid=uid, sound_event=se, created_on=created, tags=[data.Tag(term=term, value="x")] if payload else [])
    if cls == "SoundEventPrediction":
        return data.SoundEventPrediction(uuid=uid, sound_event=se, score=min(1.0, abs(f)) if (f == f and abs(f) <= 1) else 0.5)
    clip = data.Clip(uuid=str(uuidlib.UUID(int=98)), recording=rec, start_time=0.0, end_time=1.0)
    return data.ClipPrediction(uuid=uid, clip=clip, tags=[data.PredictedTag(tag=data.Tag(term=term, value="x"), score=0.5)] if payload else [])


def check_hash(spec, ctx):
    if spec["cls"] not in CLASSES:
        raise ValueError("malformed spec")
    a = _make(spec, "a")
    v = spec["variant"]
    if v == "deepcopy":
        b = copy.deepcopy(a)
    elif v == "revalidate":
        b = a.model_copy(deep=True)
    elif v in ("json_roundtrip", "dict_roundtrip", "explicit_defaults"):
        # the same object through another entry point: read back from its own JSON / dict dump (every field is then "set"), or built
        # again with every field - defaults included - passed explicitly.  Which fields were given explicitly is not part of equality.
        try:
            if v == "json_roundtrip":
                b = type(a).model_validate_json(a.model_dump_json())
            elif v == "dict_roundtrip":
                b = type(a).model_validate(a.model_dump())
            else:
                b = type(a)(**{**(a.model_extra or {}), **{(f.alias or k): getattr(a, k) for k, f in type(a).model_fields.items()}})
        except ValueError:
            ctx.label(f"{v}_not_accepted_fallback_deepcopy")  # e.g. NaN does not survive JSON
            b = copy.deepcopy(a)
    elif v == "same_fields":
        s2 = dict(spec)
        for k in list(s2):
            if k.endswith("_b") and k != "int_b":
                s2[k] = s2[k[:-2] + "_a"]
        s2["fb"] = s2["fa"]
        if s2.get("tz_a") is not None and s2.get("tz_b") is None:
            s2["tz_b"] = s2["tz_a"]
        if s2.get("tz_a") is None:
            s2["tz_b"] = None
        if s2.get("term_extra"):
            s2["term_extra"] = [s2["term_extra"][0], s2["term_extra"][0]]
        b = _make(s2, "b")
    elif v == "copy_update":
        # the source object is hashed (used in a set) first, then a copy with updated fields is derived from it;
        # the copy must behave like a freshly built object with the same fields
        hash(a)
        {a}
        fresh = _make(spec, "b")
        fields = {k: getattr(fresh, k) for k in type(fresh).model_fields}
        b = a.model_copy(update=fields)
        if b == fresh:
            if hash(b) != hash(fresh):
                ctx.case(spec, nontrivial=True, labels=[spec["cls"], v, "equal"])
                ctx.fail(f"{spec['cls']}: model_copy(update=...) of a hashed object equals a fresh object but hashes differently", spec, [hash(b), hash(fresh)], "equal hashes", kind="hash_law")
            if fresh not in {b} or {b: 1}.get(fresh) != 1:
                ctx.case(spec, nontrivial=True, labels=[spec["cls"], v, "equal"])
                ctx.fail(f"{spec['cls']}: derived copy and fresh object are not interchangeable as set member / dict key", spec, None, None, kind="set_membership")
    elif v == "assign":
        # the object is hashed and used as a set member, then every field is assigned the value a freshly built object has
        # (models are mutable): the two now compare equal and so must hash equally
        hash(a)
        {a}
        b = _make(spec, "b")
        if type(a).model_config.get("frozen"):
            ctx.label("assign_on_frozen_class_skipped")
        else:
            for k in type(b).model_fields:
                setattr(a, k, getattr(b, k))
    else:
        b = _make(spec, "b")
    equal = a == b
    ctx.case(spec, nontrivial=bool(equal) and a is not b, labels=[spec["cls"], v, "equal" if equal else "unequal"], out={"equal": bool(equal)})
    if (b == a) != equal:
        ctx.fail(f"{spec['cls']}: == is not symmetric", spec, [equal, b == a], None, kind="eq_symmetry")
    if not equal:
        return
    try:
        ha, hb = hash(a), hash(b)
    except TypeError as e:
        ctx.fail(f"{spec['cls']} is not hashable: {e}", spec, None, None, kind="unhashable")
        return
    if ha != hb:
        ctx.fail(f"{spec['cls']}: objects compare equal but hash differently ({a!r} vs {b!r})", spec, [ha, hb], "equal hashes", kind="hash_law")
    if b not in {a}:
        ctx.fail(f"{spec['cls']}: equal object not found in a set holding the other", spec, None, None, kind="set_membership")
    d = {a: "payload"}
    if d.get(b) != "payload":
        ctx.fail(f"{spec['cls']}: equal object is not the same dict key", spec, None, None, kind="dict_key")


SUBS = [
    Sub("encoding_small_exhaustive", check_small, enumerate=enum_small, exhaustive_note="65 ordered vocabularies x 1492 (tag list, score pattern) combinations = 96980 cases", min_nontrivial=0.1),
    Sub("encoding_random", check_random, strategy=random_case, quick=3000, thorough=100000, min_nontrivial=0.1),
    Sub("hash_law", check_hash, strategy=hash_case, quick=6000, thorough=150000, min_nontrivial=0.1),
]
