"""C16 - range dimensions and coordinate lookup are exact."""

from __future__ import annotations

import math

import numpy as np
from hypothesis import strategies as st

from vf.core import Sub

PROP = "C16"
TECHNIQUE = "property-based testing: reference lattice start+i*step (count, containment, ulp-bounded values, step attribute) for the three range constructors + linear-scan reference lookup for get_coord_index + NumPy-indexing reference for set_value_at_pos"
LEVEL_TEXT = (
    "create_range_dim / create_time_range / create_frequency_range are run over a palette of starts and steps (integers, dyadic, and non-representable decimals: 0.1, 0.01, "
    "1/3, 1/44100, 1/22050, 1/256000, 2.5, 7) with 0..3000 whole steps and with non-whole ratios; get_coord_index is compared with a linear scan for queries on "
    "coordinates, one ulp either side, between them, at and beyond both edges, in raising and clamping mode; set_value_at_pos is compared with plain NumPy indexing on 1-3-D arrays. Exploration."
)
LEVEL_NOTE = "coordinate i is allowed (i+4) ulp of max(|start|,|stop|) (numpy.arange rounds the step to the spacing of start); for non-whole ratios the count may be floor or ceil of the ratio (the statement fixes it only for whole ratios); clamping above the range may return n-1 or n"
RULE = (
    "Hypothesis: start in {0, 0.1, 1, 3.7, 100.3, 1000.1, -0.4, -2.7, 3600} or free; step from the palette or free in [1e-3, 10]; n in 0..3000; whole (stop = start + n*step computed "
    "so that (stop-start)/step == n in binary64) or non-whole (n + phi, phi in [0.1, 0.9]). Queries derived from the produced coordinates. Non-trivial = non-representable step with n >= 100, "
    "or a query within 1 ulp of a coordinate."
)
ASSUMPTIONS = ["step > 0, start <= stop, finite", "lookups are made on strictly increasing coordinate arrays"]

STARTS = [0.0, 0.0, 0.1, 1.0, 3.7, 100.3, 1000.1, -0.4, -2.7, 3600.0, 60.0, 86400.0]
STEPS = [1.0, 0.5, 2.5, 7.0, 0.1, 0.01, 1 / 3, 1 / 44100, 1 / 22050, 1 / 256000, 0.25, 0.7, 1 / 96000, 1 / 250000, 1 / 384000]


@st.composite
def range_case(draw):
    start = draw(st.one_of(st.sampled_from(STARTS), st.floats(-100.0, 5000.0, allow_nan=False)))
    step = draw(st.one_of(st.sampled_from(STEPS), st.sampled_from(STEPS), st.floats(1e-3, 10.0, allow_nan=False)))
    n = draw(st.one_of(st.integers(0, 40), st.integers(0, 3000), st.integers(0, 3000), st.sampled_from([10000, 50000, 123456, 300000])))
    whole = draw(st.sampled_from([True, True, False]))
    phi = 0.0 if whole else draw(st.sampled_from([0.1, 0.25, 0.5, 0.75, 0.9]))
    ctor = draw(st.sampled_from(["range_dim", "time_step", "time_samplerate", "frequency", "range_dim_size", "time_step_and_samplerate"]))
    return {"start": start, "step": step, "n": n, "phi": phi, "ctor": ctor}


@st.composite
def tiny_step_case(draw):
    """Axes with a very fine step: sample rates of 100 MHz and more (RF front ends, simulated signals), picosecond time bases, a
    frequency axis of a few nano-hertz bins.  A step is valid when it is positive, however small."""
    step = draw(st.sampled_from([1e-8, 5e-9, 4e-9, 2.5e-9, 1e-9, 2.0**-30, 2.0**-40, 1e-12, 1e-15, 1e-300, 5e-324 * 2**20]))
    start = draw(st.sampled_from([0.0, 0.0, 0.0, 2.0**-20 if step >= 2.0**-40 else 0.0]))
    n = draw(st.one_of(st.integers(0, 40), st.integers(0, 3000)))
    ctor = draw(st.sampled_from(["range_dim", "time_step", "time_samplerate", "frequency", "range_dim_size"]))
    if ctor == "time_samplerate" and not (1 / (1 / step) == step):
        ctor = "time_step"
    return {"start": start, "step": step, "n": n, "phi": draw(st.sampled_from([0.0, 0.0, 0.5])), "ctor": ctor}


def make_dim(spec):
    from soundevent import arrays

    start, step, n, phi = spec["start"], spec["step"], spec["n"], spec["phi"]
    stop = start + (n + phi) * step
    c = spec["ctor"]
    if c == "range_dim":
        v = arrays.create_range_dim("x", start=start, stop=stop, step=step)
    elif c == "range_dim_size":
        v = arrays.create_range_dim("x", start=start, stop=stop, size=max(n, 1)) if phi == 0 and n >= 1 else arrays.create_range_dim("x", start=start, stop=stop, step=step)
    elif c == "time_step":
        v = arrays.create_time_range(start_time=start, end_time=stop, step=step)
    elif c == "time_samplerate":
        v = arrays.create_time_range(start_time=start, end_time=stop, samplerate=1 / step)
    elif c == "time_step_and_samplerate":
        # both given (a spectrogram hop together with the audio samplerate): the documented rule is that the step takes precedence
        v = arrays.create_time_range(start_time=start, end_time=stop, step=step, samplerate=44100 if step != 1 / 44100 else 8000)
    else:
        v = arrays.create_frequency_range(low_freq=start, high_freq=stop, step=step)
    return v, stop


def check_range(spec, ctx):
    start, step, n, phi = spec["start"], spec["step"], spec["n"], spec["phi"]
    if step <= 0 or n < 0 or spec["ctor"] not in ("range_dim", "time_step", "time_samplerate", "frequency", "range_dim_size", "time_step_and_samplerate"):
        raise ValueError("malformed spec")
    stop = start + (n + phi) * step
    ratio = (stop - start) / step
    # "a whole number": stop was built as start + n*step, so (stop-start)/step equals n up to float noise
    whole = phi == 0 and abs(ratio - n) <= 1e-6
    if spec["ctor"] == "range_dim_size" and phi == 0 and n >= 1:
        eff_step = (stop - start) / n
    elif spec["ctor"] == "time_samplerate":
        eff_step = 1.0 / (1 / step)
    else:
        eff_step = step
    nonrep = eff_step not in (1.0, 0.5, 2.5, 7.0, 0.25)
    v, _ = ctx.call(spec, f"{spec['ctor']}(start={start}, stop={stop}, step={step})", make_dim, spec)
    # the same constructor call written positionally (documented orders) and with numpy scalars
    from soundevent import arrays as _arrays

    alt = None
    if spec["ctor"] == "range_dim":
        alt = [_arrays.create_range_dim("x", start, stop, step), _arrays.create_range_dim("x", np.float64(start), np.float64(stop), step=np.float64(step))]
    elif spec["ctor"] == "time_step":
        alt = [_arrays.create_time_range(start, stop, step), _arrays.create_time_range(start_time=np.float64(start), end_time=np.float64(stop), step=np.float64(step))]
    elif spec["ctor"] == "frequency":
        alt = [_arrays.create_frequency_range(start, stop, step), _arrays.create_frequency_range(low_freq=np.float64(start), high_freq=np.float64(stop), step=np.float64(step))]
    for a_ in alt or []:
        if not (np.array_equal(np.asarray(a_.data), np.asarray(v.data)) and a_.dims == v.dims and dict(a_.attrs) == dict(v.attrs)):
            ctx.fail(f"{spec['ctor']} written positionally / with numpy scalars gives another axis than the keyword call", spec, None, None, kind="call_style")
    coords = np.asarray(v.data, dtype=float)
    ctx.case(spec, nontrivial=(nonrep and n >= 100) or n == 0 or phi > 0, labels=[spec["ctor"], "whole" if whole else ("n+phi" if phi else "rounded"), "n=0" if n == 0 else ("n<100" if n < 100 else "n>=100"), "nonrep" if nonrep else "rep"], out={"len": int(coords.size)})
    if v.dims != ("x",) and spec["ctor"].startswith("range_dim"):
        ctx.fail(f"dimension name {v.dims}", spec, v.dims, ("x",), kind="name")
    if whole and coords.size != n:
        ctx.fail(f"{spec['ctor']}(start={start}, stop={stop}, step={eff_step}): {coords.size} coordinates, (stop-start)/step = {n} exactly", spec, int(coords.size), n, kind="count")
    if not whole:
        lo, hi = math.floor(ratio + 1e-9), math.ceil(ratio - 1e-9)
        if not (min(lo, n) <= coords.size <= max(hi, n + (1 if phi > 0 else 0))):
            ctx.fail(f"{coords.size} coordinates for ratio {ratio}", spec, int(coords.size), [lo, hi], kind="count")
    if coords.size:
        # numpy.arange computes start + i*delta with delta = (start + step) - start, i.e. the step rounded to the
        # spacing of `start`: the error grows like i ulp.  Allowed: (i + 4) ulp of max(|start|, |stop|).
        u = math.ulp(max(abs(start), abs(stop), 1e-300))
        tol = 8 * u
        ideal = start + np.arange(coords.size) * eff_step
        err = np.abs(coords - ideal)
        if bool(np.any(err > (np.arange(coords.size) + 4) * u)):
            i = int(np.argmax(err - (np.arange(coords.size) + 4) * u))
            ctx.fail(f"coordinate {i} is {coords[i]!r}, start + i*step = {ideal[i]!r} (error {err[i]:.3g} > {tol:.3g})", spec, float(coords[i]), float(ideal[i]), kind="value")
        if coords[0] < start - tol or coords[-1] >= stop:
            ctx.fail(f"coordinates leave [start, stop) = [{start}, {stop}): first {coords[0]!r}, last {coords[-1]!r}", spec, [float(coords[0]), float(coords[-1])], [start, stop], kind="containment")
        if coords.size > 1 and not np.all(np.diff(coords) > 0):
            ctx.fail("coordinates are not strictly increasing", spec, None, None, kind="monotone")
    got_step = v.attrs.get("step")
    if got_step is None or float(got_step) != float(eff_step):
        ctx.fail(f"step attribute {got_step!r}, expected {eff_step!r}", spec, got_step, eff_step, kind="step_attr")


# ---------------------------------------------------------------------------------------------


@st.composite
def lookup_case(draw):
    start = draw(st.sampled_from(STARTS))
    step = draw(st.sampled_from(STEPS))
    n = draw(st.integers(1, 60))
    built = draw(st.sampled_from(["range_dim", "plain", "plain", "int_axis", "extended_then_cropped", "decimated"]))
    qi = draw(st.integers(0, n - 1))
    qkind = draw(st.sampled_from(["on", "ulp_below", "ulp_above", "mid", "first", "last", "below", "above", "just_above_last", "free"]))
    frac = draw(st.floats(0.01, 0.99))
    return {"start": start, "step": step, "n": n, "built": built, "qi": qi, "qkind": qkind, "frac": frac, "raise_error": draw(st.booleans())}


def ref_lookup(coords, v):
    n = len(coords)
    if v < coords[0]:
        return "below"
    if v > coords[-1]:
        return "above"
    idx = 0
    for k in range(n):
        if coords[k] <= v:
            idx = k
    return idx


def check_lookup(spec, ctx):
    import xarray as xr
    from soundevent import arrays

    start, step, n = spec["start"], spec["step"], spec["n"]
    if spec["built"] == "range_dim":
        var = arrays.create_range_dim("time", start=start, stop=start + n * step, step=step)
        coords = np.asarray(var.data, dtype=float)
        if coords.size == 0:
            return
        arr = xr.DataArray(np.zeros(coords.size), dims=("time",), coords={"time": var})
    elif spec["built"] in ("extended_then_cropped", "decimated"):
        # an axis that has a history: widened with extend_dim and cut back to where it was (extend_dim records start / stop attributes,
        # cropping keeps them), or every other sample of a finer helper-built axis (the 'step' attribute is then stale).  Lookups go by
        # the coordinates the array HAS
        if spec["built"] == "decimated":
            var = arrays.create_range_dim("time", start=start, stop=start + n * step, step=step / 2)
            base = xr.DataArray(np.zeros(var.size), dims=("time",), coords={"time": var})
            arr = base.isel(time=slice(None, None, 2))
        else:
            var = arrays.create_range_dim("time", start=start, stop=start + n * step, step=step)
            base = xr.DataArray(np.zeros(var.size), dims=("time",), coords={"time": var})
            if var.size < 1:
                return
            wide = arrays.extend_dim(base, "time", start=start - 3.5 * step, stop=start + (n + 3.5) * step)
            k0 = int(np.argmin(np.abs(wide.coords["time"].values - float(var.data[0]))))
            arr = wide.isel(time=slice(k0, k0 + var.size))
        coords = np.asarray(arr.coords["time"].values, dtype=float)
        if coords.size == 0:
            return
        if coords.size > 1:
            step = float(coords[1] - coords[0])
    elif spec["built"] == "int_axis":
        # integer-typed coordinates (range(), np.arange) including negative ones; queries stay real numbers
        istart, istep = int(round(start)) - 5, max(1, int(round(step)))
        icoords = np.arange(istart, istart + n * istep, istep, dtype=np.int64 if n % 2 else np.int32)
        arr = xr.DataArray(np.zeros(n), dims=("time",), coords={"time": icoords})
        coords = icoords.astype(float)
        step = float(istep)
    else:
        coords = np.array([start + i * step for i in range(n)])
        arr = xr.DataArray(np.zeros(n), dims=("time",), coords={"time": coords})
    n = coords.size
    i = min(spec["qi"], n - 1)
    k = spec["qkind"]
    v = {
        "on": coords[i], "ulp_below": math.nextafter(coords[i], -math.inf), "ulp_above": math.nextafter(coords[i], math.inf),
        "mid": coords[i] + spec["frac"] * step, "first": coords[0], "last": coords[-1], "below": coords[0] - spec["frac"] * step - 1e-9,
        "above": coords[-1] + (1 + spec["frac"]) * step, "just_above_last": math.nextafter(coords[-1], math.inf), "free": coords[0] + spec["frac"] * (coords[-1] - coords[0] + step),
    }[k]
    v = float(v)
    exp = ref_lookup(coords, v)
    ctx.case(spec, nontrivial=k in ("on", "ulp_below", "ulp_above", "first", "last", "just_above_last"), labels=[k, spec["built"], "raise" if spec["raise_error"] else "clamp", "inrange" if isinstance(exp, int) else exp])
    def same_answer(call_a, call_b):
        out = []
        for c_ in (call_a, call_b):
            try:
                out.append(("ok", int(c_())))
            except KeyError:
                out.append(("KeyError",))
        return out[0] == out[1], out

    for raise_error in (spec["raise_error"], not spec["raise_error"]):
        # written positionally (documented order: arr, dim, value, raise_error) and with a numpy scalar value
        for how, alt in (("positionally", lambda: arrays.get_coord_index(arr, "time", v, raise_error)), ("with a numpy scalar", lambda: arrays.get_coord_index(arr, "time", np.float64(v), raise_error=raise_error)),
                         ("with the dimension given as the library's Dimensions.time member (a str)", lambda: arrays.get_coord_index(arr, arrays.Dimensions.time, v, raise_error=raise_error))):
            ok_, both = same_answer(lambda: arrays.get_coord_index(arr, "time", v, raise_error=raise_error), alt)
            if not ok_:
                ctx.fail(f"get_coord_index({v!r}, raise_error={raise_error}) written {how} answers {both[1]}, the keyword call {both[0]}", spec, both[1], both[0], kind="call_style")
        try:
            got = arrays.get_coord_index(arr, "time", v, raise_error=raise_error)
        except KeyError:
            if isinstance(exp, int):
                ctx.fail(f"get_coord_index({v!r}) raised KeyError although the value lies inside [{coords[0]}, {coords[-1]}]", spec, "KeyError", exp, kind="false_keyerror")
            elif not raise_error:
                ctx.fail("get_coord_index(raise_error=False) raised KeyError", spec, "KeyError", "clamped index", kind="clamp_raised")
            continue
        except Exception as e:  # noqa: BLE001
            ctx.fail(f"get_coord_index raised {type(e).__name__}: {e}", spec, repr(e), None, kind="wrong_exception")
            continue
        if isinstance(exp, int):
            if int(got) != exp:
                ctx.fail(f"get_coord_index(v={v!r}, raise_error={raise_error}) = {got}, the unique i with coord[i] <= v < coord[i+1] is {exp} (coord[{exp}]={coords[exp]!r})", spec, int(got), exp, kind="index")
        elif raise_error:
            ctx.fail(f"get_coord_index({v!r}) returned {got} for a value outside the range (raise_error=True)", spec, int(got), "KeyError", kind="missing_keyerror")
        elif exp == "below" and int(got) != 0:
            ctx.fail(f"clamping below the range gives {got}, expected 0", spec, int(got), 0, kind="clamp")
        elif exp == "above" and int(got) not in (n - 1, n):
            ctx.fail(f"clamping above the range gives {got}, expected {n - 1} or {n}", spec, int(got), [n - 1, n], kind="clamp")
    # raise_error defaults to True
    try:
        d_got = ("ok", int(arrays.get_coord_index(arr, "time", v)))
    except KeyError:
        d_got = ("KeyError", None)
    d_exp = ("ok", exp) if isinstance(exp, int) else ("KeyError", None)
    if d_got != d_exp:
        ctx.fail(f"get_coord_index({v!r}) with raise_error omitted gives {d_got}, expected {d_exp}", spec, d_got, d_exp, kind="defaults")
    # a window cut out of the array that was just queried answers by ITS coordinates
    if n >= 4:
        sub = arr.isel(time=slice(1, n - 1))
        sc = coords[1 : n - 1]
        for q in (coords[0], coords[-1], sc[0], sc[-1], v):
            e = ref_lookup(sc, float(q))
            try:
                g2 = int(arrays.get_coord_index(sub, "time", float(q), raise_error=False))
            except Exception as ex:  # noqa: BLE001
                ctx.fail(f"get_coord_index on a window raised {type(ex).__name__}", spec, repr(ex), None, kind="wrong_exception")
                continue
            ok = (g2 == e) if isinstance(e, int) else (g2 == 0 if e == "below" else g2 in (len(sc) - 1, len(sc)))
            if not ok:
                ctx.fail(f"window [1:{n - 1}] of a queried array: get_coord_index({float(q)!r}) = {g2}, its own coordinates give {e}", spec, g2, e, kind="stale_range")


# ---------------------------------------------------------------------------------------------


@st.composite
def setval_case(draw):
    ndim = draw(st.integers(1, 3))
    shape = [draw(st.integers(1, 5)) for _ in range(ndim)]
    steps = [draw(st.sampled_from([1.0, 0.5, 0.1, 1 / 3, 2.5])) for _ in range(ndim)]
    starts = [draw(st.sampled_from([0.0, 0.1, 10.0])) for _ in range(ndim)]
    nq = draw(st.integers(1, ndim))
    qdims = sorted(draw(st.permutations(list(range(ndim))))[:nq])
    qidx = [draw(st.integers(0, shape[d] - 1)) for d in qdims]
    fr = [draw(st.sampled_from([0.0, 0.0, 0.3, 0.9])) for _ in qdims]
    vector = draw(st.booleans())
    return {"shape": shape, "steps": steps, "starts": starts, "qdims": qdims, "qidx": qidx, "fr": fr, "vector": vector, "value": draw(st.integers(-9, 9)), "order": draw(st.permutations(list(range(nq)))),
            "layout": draw(st.sampled_from(["plain", "plain", "coords_reversed", "scalar_coord_first", "transposed", "leading_dim_without_coord"]))}


def check_setval(spec, ctx):
    import xarray as xr
    from soundevent import arrays

    names = ["time", "frequency", "channel"][: len(spec["shape"])]
    coords = {nm: np.array([s + i * st_ for i in range(n)]) for nm, s, st_, n in zip(names, spec["starts"], spec["steps"], spec["shape"])}
    data = np.arange(int(np.prod(spec["shape"])), dtype=float).reshape(spec["shape"]) + 100
    layout = spec.get("layout", "plain")
    if layout == "coords_reversed":
        arr = xr.DataArray(data.copy(), dims=names, coords={k: coords[k] for k in reversed(list(coords))})
    elif layout == "scalar_coord_first":
        arr = xr.DataArray(data.copy(), dims=names, coords={"recording": "r1", **coords})
    elif layout == "transposed":
        arr = xr.DataArray(data.copy(), dims=names, coords=coords).transpose(*reversed(names))
        arr = arr.copy()
    elif layout == "leading_dim_without_coord":
        arr = xr.DataArray(np.stack([data.copy(), data.copy() + 1000]), dims=["batch"] + names, coords=coords)
    else:
        arr = xr.DataArray(data.copy(), dims=names, coords=coords)
    expected = data.copy()
    indexer = [slice(None)] * len(names)
    query = {}
    items = list(zip(spec["qdims"], spec["qidx"], spec["fr"]))
    for pos in spec["order"]:
        d, i, f = items[pos]
        c = coords[names[d]]
        q = float(c[i] + (f * spec["steps"][d] if i < len(c) - 1 else 0.0))
        query[names[d]] = q
        indexer[d] = i
    remaining = [n for k, n in enumerate(spec["shape"]) if k not in spec["qdims"]]
    value = spec["value"]
    if spec["vector"] and len(remaining) == 1:
        value = [float(spec["value"] + j) for j in range(remaining[0])]
    expected[tuple(indexer)] = value
    ctx.case(spec, nontrivial=len(names) >= 2, labels=[f"ndim={len(names)}", f"nq={len(query)}", "vector" if isinstance(value, list) else "scalar"])
    out = ctx.call(spec, f"set_value_at_pos({query})", arrays.set_value_at_pos, arr, value, **query)
    if layout == "transposed":
        got = np.asarray(out.transpose(*names).data)
    elif layout == "leading_dim_without_coord":
        exp_b = np.stack([data.copy(), data.copy() + 1000])
        exp_b[(slice(None),) + tuple(indexer)] = value
        got, expected = np.asarray(out.data), exp_b
    else:
        got = np.asarray(out.data)
    if got.shape != expected.shape or not np.array_equal(got, expected):
        ctx.fail(f"set_value_at_pos({query}, value={value}) wrote other cells than index {indexer}", spec, got.tolist(), expected.tolist(), kind="cells")
    for nm in names:
        if not np.array_equal(out.coords[nm].values, coords[nm]):
            ctx.fail("coordinates changed", spec, None, None, kind="coords")


SUBS = [
    Sub("range_constructors", check_range, strategy=range_case, quick=12000, thorough=300000, min_nontrivial=0.2),
    Sub("tiny_steps", check_range, strategy=tiny_step_case, quick=1500, thorough=30000, min_nontrivial=0.2),
    Sub("coord_lookup", check_lookup, strategy=lookup_case, quick=8000, thorough=200000, min_nontrivial=0.3),
    Sub("set_value_at_pos", check_setval, strategy=setval_case, quick=3000, thorough=60000, min_nontrivial=0.3),
]
