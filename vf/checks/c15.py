"""C15 - audio-derived arrays are sample-accurate and their axes tell the truth."""

from __future__ import annotations

import math
import os
import uuid as uuidlib
from fractions import Fraction as Fr

import numpy as np
from hypothesis import strategies as st

from vf.checks.c01 import scratch
from vf.core import Sub

PROP = "C15"
TECHNIQUE = "property-based testing: reference slicing of known WAV file contents (PCM-16/24/32, float, double) (exact equality) for load_clip / load_recording + axis invariants (strictly increasing, start, agreement with the advertised step within one step) for load_recording, load_clip, resample and compute_spectrogram"
LEVEL_TEXT = (
    "WAV files (PCM-16 mostly, also PCM-24/32, FLOAT, DOUBLE) holding a deterministic 16-bit integer ramp (every frame distinct, exactly representable in each subtype; float files also with gain 1.75 or 4, i.e. samples beyond full scale) are written by the check for 21 sample rates x 1-3 channels; clips are "
    "generated on and off sample boundaries, of zero length, ending at, straddling and starting at the end of file, with time-expansion factors {0.5,1,2,5,10}; "
    "load_clip must return exactly floor(duration x samplerate) frames equal to the file frames from floor(start x samplerate) on, zero-filled past the end, "
    "with time (offset+i)/samplerate, identical to the same rows of load_recording. Every array produced by load_recording, load_clip, resample (non-integer "
    "ratios) and compute_spectrogram (whole and fractional numbers of samples per window / hop) must have strictly increasing coordinates that start at the "
    "source's start and stay within one advertised step of first + i*step; source arrays are re-checked after deriving from them. Exploration."
)
LEVEL_NOTE = "floor(x*samplerate) accepts the float product or the exact product (they differ only on rounding boundaries, counted); WAV (PCM-16/24/32, float, double) through libsndfile only"
RULE = (
    "Hypothesis: rate from a palette of 21 rates (93 Hz ... 384 kHz, incl. rates such as 7000, 25000, 50000 for which 1/(1/rate) < rate in binary64), channels 1-3, 100-20000 frames, time expansion with rate x factor integral; "
    "clip start/end = k/rate (on boundary), free floats (off boundary), past the end, zero length, start at EOF; resampling targets 1000-192000; window/hop from {whole samples, fractional samples}. "
    "Non-trivial = off-boundary clip start, or a clip reaching past the end, or fractional-sample hop/window, or a non-integer rate ratio."
)
ASSUMPTIONS = ["Recording.samplerate is an integer and equals file rate x time expansion; Recording.duration = frames / samplerate", "clips start at or before the end of the file (libsndfile cannot seek past it)"]

def f21(spec, kind, message):
    """Open-finding classifier F21: the drifting array comes from a resample applied to the output of another resample."""
    return kind == "axis_step" and message.startswith("resample(") and list(spec.get("ops", [])).count("resample") >= 2


KNOWN = {"F21-chained-resample-drift": f21}

RATES = [1234, 7919, 8000, 11025, 16000, 22050, 44100, 48000, 96000, 192000, 256000, 93, 99, 7000, 14000, 25000, 50000, 100000, 200000, 250000, 384000]
_FILES = {}
MAX_ELEMENTS = 6_000_000  # per derived array (harness memory budget: 16 workers)


SUBTYPES = ["PCM_16", "PCM_24", "PCM_32", "FLOAT", "DOUBLE"]  # every one of them stores the 16-bit test signal exactly


def wav(rate, channels, frames, subtype="PCM_16", gain=1.0):
    import soundfile as sf

    if subtype.startswith("PCM"):
        gain = 1.0  # only float files can hold samples beyond full scale (head-room, applied gain)
    key = (rate, channels, frames, subtype, gain)
    if key not in _FILES:
        d = os.path.join(scratch(), "wav")
        os.makedirs(d, exist_ok=True)
        path = os.path.join(d, f"r{rate}_c{channels}_n{frames}_{subtype}_g{gain}.wav")
        i = np.arange(frames, dtype=np.int64)[:, None]
        c = np.arange(channels, dtype=np.int64)[None, :]
        data = (((i * 7 + c * 4099 + 11) % 65536) - 32768).astype(np.int16)
        sf.write(path, data if subtype.startswith("PCM") else data.astype(np.float64) / 32768.0 * gain, rate, subtype=subtype)
        _FILES[key] = (path, data.astype(np.float64) / 32768.0 * gain)
        if len(_FILES) > 40:
            _FILES.pop(next(iter(_FILES)))
    return _FILES[key]


@st.composite
def rec_spec(draw, max_frames=20000):
    rate = draw(st.sampled_from(RATES))
    te = draw(st.sampled_from([1.0, 1.0, 1.0, 0.5, 2.0, 5.0, 10.0]))
    if float(int(rate * te)) != rate * te:
        te = 1.0
    return {"rate": rate, "channels": draw(st.integers(1, 3)), "frames": draw(st.sampled_from([100, 1000, 4410, max_frames, max_frames, 777])), "te": te,
            "subtype": draw(st.sampled_from(["PCM_16", "PCM_16", "PCM_16"] + SUBTYPES)), "gain": draw(st.sampled_from([1.0, 1.75, 4.0])),
            "reuse_path": draw(st.sampled_from([None, None, None, "overwrite", "rename"])), "dur_round": draw(st.sampled_from([False, False, True]))}


def recording(rs):
    from soundevent import data

    if rs["rate"] not in RATES or rs["frames"] < 100 or rs["frames"] > 200000 or rs["channels"] < 1 or rs["te"] not in (0.5, 1.0, 2.0, 5.0, 10.0) or rs.get("subtype", "PCM_16") not in SUBTYPES or rs.get("gain", 1.0) not in (1.0, 1.75, 4.0):
        raise ValueError("malformed spec")

    path, frames = wav(rs["rate"], rs["channels"], rs["frames"], rs.get("subtype", "PCM_16"), rs.get("gain", 1.0))
    sr = int(rs["rate"] * rs["te"])
    if rs.get("reuse_path"):
        # one path that holds another file every time (a file re-recorded / replaced between two loads in the same process)
        import shutil

        reused = os.path.join(os.path.dirname(path), "reused.wav")
        if rs["reuse_path"] == "rename":
            shutil.copyfile(path, reused + ".tmp")
            os.replace(reused + ".tmp", reused)
        else:
            shutil.copyfile(path, reused)
        path = reused
    duration = rs["frames"] / sr
    if rs.get("dur_round") and math.floor(duration * 100) / 100 > 0:
        duration = math.floor(duration * 100) / 100  # metadata table with the duration cut to two decimals (never longer than the file)
    rec = data.Recording(uuid=str(uuidlib.UUID(int=1)), path=path, duration=duration, channels=rs["channels"], samplerate=sr, time_expansion=rs["te"])
    return rec, frames, sr


def check_axis(ctx, spec, arr, dim, what, first_expected=None, tol_first=1e-9):
    c = np.asarray(arr.coords[dim].values, dtype=float)
    step = arr.coords[dim].attrs.get("step")
    if step is None:
        ctx.fail(f"{what}: coordinate '{dim}' advertises no step", spec, None, None, kind="no_step")
        return
    if c.size > 1 and not np.all(np.diff(c) > 0):
        ctx.fail(f"{what}: '{dim}' coordinates are not strictly increasing", spec, c[:5].tolist(), None, kind="axis_monotone")
    if c.size and first_expected is not None and abs(c[0] - first_expected) > tol_first:
        ctx.fail(f"{what}: '{dim}' starts at {c[0]!r}, the source starts at {first_expected!r}", spec, float(c[0]), first_expected, kind="axis_start")
    if c.size:
        dev = np.abs(c - (c[0] + np.arange(c.size) * step))
        if float(dev.max()) >= step:
            i = int(dev.argmax())
            ctx.fail(f"{what}: coordinate {i} of '{dim}' is {c[i]!r} but first + i*step = {c[0] + i * step!r} (advertised step {step!r}, actual spacing {float(np.diff(c).mean()) if c.size > 1 else None!r})", spec, float(c[i]), float(c[0] + i * step), kind="axis_step")


# ---------------------------------------------------------------------------------------------


@st.composite
def clip_case(draw):
    rs = draw(rec_spec())
    sr = int(rs["rate"] * rs["te"])
    n = rs["frames"]
    kind = draw(st.sampled_from(["on", "on", "off", "off", "past_end", "zero_len", "start_at_eof", "end_at_eof", "whole"]))
    a = draw(st.integers(0, n))
    b = draw(st.integers(0, n))
    a, b = min(a, b), max(a, b)
    if kind in ("off", "past_end", "zero_len"):
        a = min(a, n - 1)  # off-boundary starts must stay before the end of the file
    fa, fb = draw(st.floats(0.0, 0.999)), draw(st.floats(0.0, 0.999))
    if kind == "on":
        start, end = a / sr, b / sr
    elif kind == "off":
        start, end = (a + fa) / sr, (b + fb) / sr if b + fb >= a + fa else (a + fa) / sr
    elif kind == "past_end":
        start, end = (a + (fa if draw(st.booleans()) else 0)) / sr, (n + draw(st.integers(1, 500)) + fb) / sr
    elif kind == "zero_len":
        start = end = (a + (fa if draw(st.booleans()) else 0)) / sr
    elif kind == "start_at_eof":
        start, end = n / sr, (n + draw(st.integers(0, 50))) / sr
    elif kind == "end_at_eof":
        start, end = a / sr, n / sr
    else:
        start, end = 0.0, n / sr
    if end < start:
        end = start
    return {"rec": rs, "start": start, "end": end, "kind": kind, "audio_dir": draw(st.booleans())}


def check_clip(spec, ctx):
    from soundevent import audio, data

    rec, frames, sr = recording(spec["rec"])
    n_file = spec["rec"]["frames"]
    start, end = spec["start"], spec["end"]
    if start > n_file / sr + 1e-12:
        raise ValueError("malformed spec: clip starts after the end of the file")
    clip = data.Clip(uuid=str(uuidlib.UUID(int=2)), recording=rec, start_time=start, end_time=end)
    off_float, off_exact = math.floor(start * sr), math.floor(Fr(start) * sr)
    dur = end - start
    n_float, n_exact = math.floor(dur * sr), math.floor((Fr(end) - Fr(start)) * sr)
    off_boundary = Fr(start) * sr != off_exact
    nontrivial = off_boundary or spec["kind"] in ("past_end", "start_at_eof", "zero_len")
    labels = [spec["kind"], f"ch={spec['rec']['channels']}", f"te={spec['rec']['te']}", "offset_ambiguous" if off_float != off_exact else "offset_clear", "count_ambiguous" if n_float != n_exact else "count_clear"]
    kw = {}
    if spec["audio_dir"]:
        kw["audio_dir"] = os.path.dirname(rec.path)
        rec2 = rec.model_copy(update={"path": os.path.basename(rec.path)})
        clip = data.Clip(uuid=clip.uuid, recording=rec2, start_time=start, end_time=end)
    arr = ctx.call(spec, f"load_clip([{start}, {end}] @ {sr} Hz, {n_file} frames)", audio.load_clip, clip, **kw)
    ctx.case(spec, nontrivial=nontrivial, labels=labels, out={"shape": list(arr.shape)})
    if arr.dims != ("time", "channel") or arr.shape[1] != spec["rec"]["channels"]:
        ctx.fail(f"load_clip dims/shape {arr.dims} {arr.shape}", spec, list(arr.shape), None, kind="shape")
    n = arr.shape[0]
    if n not in (n_float, n_exact):
        ctx.fail(f"load_clip returned {n} frames, floor(duration x samplerate) = {n_exact} (float product: {n_float}) for clip [{start}, {end}] at {sr} Hz", spec, n, [n_exact, n_float], kind="frames")
    offs = [o for o in {off_float, off_exact}]
    got = np.asarray(arr.values)
    match = None
    for off in offs:
        exp = np.zeros((n, spec["rec"]["channels"]))
        avail = max(0, min(n, n_file - off))
        if avail > 0:
            exp[:avail] = frames[off : off + avail]
        if got.shape == exp.shape and np.array_equal(got, exp):
            match = off
            break
    if match is None:
        off = offs[0]
        exp = np.zeros((n, spec["rec"]["channels"]))
        avail = max(0, min(n, n_file - off))
        exp[:avail] = frames[off : off + avail]
        bad = np.argwhere(got != exp)[:1].tolist() if got.shape == exp.shape else "shape"
        ctx.fail(f"load_clip frames differ from the file frames from offset {off} on (zero-filled past frame {n_file}); first difference at {bad}", spec, got[:3].tolist(), exp[:3].tolist(), kind="data")
        return
    t = np.asarray(arr.coords["time"].values, dtype=float)
    if t.size != n:
        ctx.fail("time axis length differs from the data length", spec, int(t.size), n, kind="axis_len")
    if n:
        ideal = (match + np.arange(n)) / sr
        if float(np.max(np.abs(t - ideal))) > 1e-6 / sr:
            i = int(np.argmax(np.abs(t - ideal)))
            ctx.fail(f"frame {i} carries time {t[i]!r}, expected (offset+i)/samplerate = {ideal[i]!r}", spec, float(t[i]), float(ideal[i]), kind="time_axis")
    check_axis(ctx, spec, arr, "time", "load_clip", first_expected=match / sr if n else None, tol_first=1e-6 / sr)
    # results belong to the caller: loading another clip of the same length afterwards must not change the array just returned
    keep = np.array(arr.values, copy=True)
    other_start = max(0.0, start - (n / sr) / 2) if start > 0 else (n / sr) / 3
    other = data.Clip(uuid=str(uuidlib.UUID(int=5)), recording=clip.recording, start_time=other_start, end_time=other_start + (end - start))
    try:
        arr2 = audio.load_clip(other, **kw)
    except Exception:
        arr2 = None
    if not np.array_equal(np.asarray(arr.values), keep):
        ctx.fail("the array returned by load_clip changed when another clip was loaded afterwards (results share a buffer)", spec, None, None, kind="result_aliased")
    if arr2 is not None and arr2.shape == arr.shape and np.shares_memory(np.asarray(arr2.values), np.asarray(arr.values)):
        ctx.fail("two load_clip results share memory", spec, None, None, kind="result_aliased")
    # two threads loading two different files that carry the same relative name under two audio directories (two sites, one naming
    # scheme): this load is suspended at lines inside the library while the other thread loads from the other directory
    if spec["audio_dir"] and n_file <= 5000:
        import soundfile as sf

        dir_b = kw["audio_dir"] + "-site-b"
        os.makedirs(dir_b, exist_ok=True)
        info = sf.info(os.path.join(kw["audio_dir"], clip.recording.path))
        sf.write(os.path.join(dir_b, str(clip.recording.path)), frames[::-1] if info.subtype in ("FLOAT", "DOUBLE") else np.round(frames[::-1] * 32768.0).astype(np.int16), info.samplerate, subtype=info.subtype)
        ctx.interleave(
            spec,
            "load_clip(audio_dir=...)",
            lambda: (np.asarray(audio.load_clip(clip, audio_dir=kw["audio_dir"]).values).tolist(), os.getcwd()),
            lambda: (np.asarray(audio.load_clip(clip, audio_dir=dir_b).values).tolist(), os.getcwd()),
            every=2,
            max_pauses=32,
        )
    if spec["rec"].get("dur_round"):
        # load_recording lays its time axis out from Recording.duration and refuses metadata that disagree with the file:
        # stated assumption of that function, not of load_clip
        ctx.label("load_recording_skipped_rounded_duration")
        return
    # same frames as load_recording
    full = ctx.call(spec, "load_recording", audio.load_recording, clip.recording, **kw)
    if full.shape != (n_file, spec["rec"]["channels"]):
        ctx.fail(f"load_recording shape {full.shape}, file has {n_file} frames", spec, list(full.shape), [n_file, spec["rec"]["channels"]], kind="recording_shape")
    if not np.array_equal(np.asarray(full.values), frames):
        ctx.fail("load_recording data differ from the file contents", spec, None, None, kind="recording_data")
    avail = max(0, min(n, n_file - match))
    if avail and not np.array_equal(got[:avail], np.asarray(full.values)[match : match + avail]):
        ctx.fail("load_clip frames differ from the same frames of load_recording", spec, None, None, kind="clip_vs_recording")
    if avail:
        tf = np.asarray(full.coords["time"].values)[match : match + avail]
        if float(np.max(np.abs(tf - t[:avail]))) > 1e-6 / sr:
            ctx.fail("load_clip and load_recording disagree on the time of the same frames", spec, None, None, kind="clip_vs_recording_time")
    check_axis(ctx, spec, full, "time", "load_recording", first_expected=0.0)


# ---------------------------------------------------------------------------------------------


@st.composite
def derive_case(draw):
    rs = draw(rec_spec(max_frames=20000))
    rs["dur_round"] = False  # the derived chains start from load_recording as well, which needs metadata that agree with the file
    sr = int(rs["rate"] * rs["te"])
    n = rs["frames"]
    a = draw(st.integers(0, n // 2))
    off = draw(st.sampled_from([0.0, 0.0, 0.37]))
    length = draw(st.integers(max(64, n // 8), n - a)) if n - a >= max(64, n // 8) else n - a
    ops = draw(st.lists(st.sampled_from(["resample", "spectrogram"]), min_size=1, max_size=3))
    targets = [draw(st.sampled_from([1000, 4000, 8000, 11025, 16000, 22050, 44100, 48000, 96000, 192000])) for _ in ops]
    wins = []
    for _ in ops:
        wmode = draw(st.sampled_from(["whole", "frac"]))
        ws = draw(st.integers(4, 256))
        hs = draw(st.one_of(st.integers(1, ws), st.integers(1, ws), st.integers(ws + 1, 3 * ws)))  # also sparse frames: hop longer than the window
        wf, hf = (0.0, 0.0) if wmode == "whole" else (draw(st.sampled_from([0.0, 0.25, 0.5, 0.9])), draw(st.sampled_from([0.1, 0.25, 0.5, 0.9])))
        wins.append([ws + wf, hs + hf if (hs + hf <= ws + wf or hs > ws) else float(hs)])
    spec = {"rec": rs, "a": a, "off": off, "length": length, "ops": ops, "targets": targets, "wins": wins, "whole_recording": draw(st.integers(0, 3)) == 0,
            "sample_dtype": draw(st.sampled_from([None, None, "float32"])), "channel_first": draw(st.integers(0, 3)) == 0,
            # a time slice cut off the loaded array before it is processed (xarray keeps coordinate attributes through isel) and
            # non-default spectrogram options: the axes still start at the (sliced) source's start
            "slice": draw(st.sampled_from([0, 0, 1, 7, 50])),
            "spec_kw": draw(st.sampled_from([{}, {}, {"padded": False}, {"boundary": "even"}, {"padded": False, "boundary": "even"}, {"padded": False, "boundary": "odd", "window_type": "hamming"},
                                             {"padded": False, "boundary": "constant", "detrend": "constant"}]))}
    if draw(st.integers(0, 5)) == 0:
        # a clip late in a long low-rate recording (times beyond 1000 s) - coordinates must stay double precision
        spec["rec"] = {"rate": draw(st.sampled_from([93, 99])), "channels": 1, "frames": 150000, "te": 1.0}
        spec["a"] = draw(st.integers(100000, 149000))
        spec["length"] = draw(st.integers(64, 400))
        spec["whole_recording"] = False
        spec["ops"] = ["resample"] + spec["ops"][:1]
        spec["targets"] = [draw(st.sampled_from([16000, 44100]))] + spec["targets"][:1]
        spec["wins"] = [spec["wins"][0]] + spec["wins"][:1]
    return spec


def check_derive(spec, ctx):
    from soundevent import arrays, audio, data

    rec, frames, sr = recording(spec["rec"])
    if spec["whole_recording"]:
        src = audio.load_recording(rec)
        what = "load_recording"
    else:
        start = (spec["a"] + spec["off"]) / sr
        clip = data.Clip(uuid=str(uuidlib.UUID(int=3)), recording=rec, start_time=start, end_time=start + spec["length"] / sr)
        src = audio.load_clip(clip)
        what = "load_clip"
    if spec.get("sample_dtype"):
        src = src.astype(spec["sample_dtype"])  # single-precision samples; the time axis is unaffected by the sample dtype
        what += ".astype(float32)"
    if spec.get("slice") and src.sizes["time"] > spec["slice"] + 16:
        src = src.isel(time=slice(spec["slice"], None))
        what += f".isel(time=slice({spec['slice']}, None))"
    if spec.get("channel_first") and "channel" in src.dims:
        # the same samples laid out channel-first (what a model's input pipeline hands back): operations go by dimension NAME
        src = src.transpose("channel", "time")
        what += ".transpose(channel, time)"
    skw = dict(spec.get("spec_kw") or {})
    if not set(skw) <= {"padded", "boundary", "window_type", "detrend"} or skw.get("boundary", "zeros") not in ("zeros", "even", "odd", "constant"):
        raise ValueError("malformed spec")
    produced = [(what, src, float(src.coords["time"].values[0]) if src.sizes["time"] else None)]
    frac = False
    cur = src
    cur_rate = float(sr)
    nch = max(1, int(src.sizes.get("channel", 1)))
    for op, target, (w, h) in zip(spec["ops"], spec["targets"], spec["wins"]):
        if cur.sizes.get("time", 0) < 8 or "frequency" in cur.dims:
            break
        first = float(cur.coords["time"].values[0])
        if op == "resample":
            if int(cur.sizes["time"] * target / cur_rate) < 2:
                continue
            if cur.sizes["time"] * target / cur_rate * nch > MAX_ELEMENTS:
                ctx.label("too_large_skipped")  # harness memory budget (215 s at 93 Hz resampled to 192 kHz is 41 M frames)
                continue
            if (target / cur_rate) != int(target / cur_rate):
                frac = True
            out = ctx.call(spec, f"resample({cur_rate} -> {target})", audio.resample, cur, target)
            produced.append((f"resample({what}, {target})", out, first))
            cur, cur_rate = out, float(target)
        else:
            ws, hs = w / cur_rate, h / cur_rate
            if w != int(w) or h != int(h):
                frac = True
            if round(w) < 2 or math.ceil(w) > cur.sizes["time"]:
                ctx.label("window_longer_than_signal_skipped")
                continue
            if cur.sizes["time"] / max(1.0, math.floor(h)) * (math.ceil(w) / 2 + 1) * nch > MAX_ELEMENTS:
                ctx.label("too_large_skipped")
                continue
            if cur.dims[0] != "time":
                cur = cur.transpose("time", ...)  # compute_spectrogram is written for (time, channel) input and raises on other layouts (observation, 11.3)
            out = ctx.call(spec, f"compute_spectrogram(window={w} samples, hop={h} samples @ {cur_rate} Hz)", audio.compute_spectrogram, cur, window_size=ws, hop_size=hs, **skw)
            produced.append((f"compute_spectrogram(window={w}, hop={h} samples)", out, first))
            if nch >= 2 and "channel" in out.dims and out.sizes["channel"] == nch:
                # the channel axis tells the truth as well: what the array holds for channel c is the spectrogram of channel c alone
                c_ = (int(w) + int(h)) % nch
                alone = audio.compute_spectrogram(cur.isel(channel=[c_]), window_size=ws, hop_size=hs, **skw)
                a_, b_ = np.asarray(alone.transpose("frequency", "time", "channel").values), np.asarray(out.isel(channel=[c_]).transpose("frequency", "time", "channel").values)
                if a_.shape != b_.shape or not np.allclose(a_, b_, rtol=1e-9, atol=1e-300, equal_nan=True):
                    ctx.fail(f"compute_spectrogram of {nch} channels: the values stored for channel {c_} are not the spectrogram of channel {c_} computed alone", spec, None, None, kind="channel_axis")
            check_axis(ctx, spec, out, "frequency", "compute_spectrogram", first_expected=0.0)
            f = np.asarray(out.coords["frequency"].values)
            if f.size and f[-1] > cur_rate / 2 * (1 + 1e-9):
                ctx.fail(f"spectrogram frequencies exceed Nyquist: {f[-1]} > {cur_rate / 2}", spec, float(f[-1]), cur_rate / 2, kind="nyquist")
    ctx.case(spec, nontrivial=frac or spec["off"] > 0, labels=[what] + spec["ops"] + (["fractional"] if frac else ["integral"]), out={"arrays": len(produced)})
    # every produced array is checked at the end, i.e. also after other arrays were derived from it
    for name, arr, first in produced:
        check_axis(ctx, spec, arr, "time", name, first_expected=first, tol_first=1e-9)


SUBS = [
    Sub("load_clip_exact", check_clip, strategy=clip_case, quick=2500, thorough=80000, min_nontrivial=0.3),
    Sub("derived_axes", check_derive, strategy=derive_case, quick=1500, thorough=40000, min_nontrivial=0.2),
]
