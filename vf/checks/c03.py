"""C03 - geometry validation accepts exactly the valid geometries and normalises them."""

from __future__ import annotations

import copy
import json
import math
import os
import subprocess
import sys
import types

import numpy as np
from hypothesis import strategies as st

from vf.core import Sub
from vf.strategies import ALL_KINDS, MAXF, geom_dict, geometry_spec

PROP = "C03"
RULE = (
    "Hypothesis: a valid geometry spec of one of the nine types (grid/free coordinates, domain edges) is mutated "
    "0-2 times (set one numeric leaf - chosen uniformly over all leaves, so deep members of multi-polygons are hit - "
    "to a boundary-palette value; drop/add a point component; truncate below the minimum size; wrap/unwrap one nesting "
    "level; reverse; swap the type tag; make a multi-line member backward or vertical; empty list). Each structure is "
    "pushed through the constructor, geometry_validate(dict), geometry_validate(attribute object) and "
    "geometry_validate(JSON text) and compared with an independent reference validator in both directions. "
    "Non-trivial = mutated (within two mutations of the accept/reject boundary) or valid with a coordinate on the "
    "domain boundary (0, MAX_FREQUENCY)."
)
TECHNIQUE = 'property-based testing: mutation-of-valid generator + independent reference validator (accept iff valid, both directions) through 4 entry points; coverage-guided fuzzing (atheris) of the same property in the thorough tier'
LEVEL_TEXT = 'Differential test of the nine geometry validators against a reference predicate written from the statement, over valid structures and 0-2 structural/numeric mutations, through constructor, dict, attribute-object and JSON-text modes and through a SoundEvent field typed with the Geometry union (dict and JSON); normal form, class identity and JSON re-validation checked on every accepted object. Exploration.'
LEVEL_NOTE = 'trusts the reference validator (shape, t>=0, 0<=f<=MAX, per-type rules); inputs restricted to JSON-able lists of finite ints/floats'
ASSUMPTIONS = [
    "inputs are JSON-able structures of lists and finite ints/floats (bools, strings, NaN/inf are outside 'numeric coordinate structure')",
    "reference validator written from the property statement (shape, t>=0, 0<=f<=MAX, per-type rules)",
]
ENGINES = ["hypothesis", "atheris (thorough tier, same property through fuzz_one_input)"]

NUM = (int, float)


def is_num(x):
    return isinstance(x, NUM) and not isinstance(x, bool)


def is_point(p):
    return isinstance(p, list) and len(p) == 2 and is_num(p[0]) and is_num(p[1])


def point_ok(p):
    return is_point(p) and p[0] >= 0 and 0 <= p[1] <= MAXF


def ref_valid(kind, c):
    if kind == "TimeStamp":
        return is_num(c) and c >= 0
    if kind == "TimeInterval":
        return isinstance(c, list) and len(c) == 2 and all(is_num(x) for x in c) and c[0] <= c[1] and c[0] >= 0 and c[1] >= 0
    if kind == "Point":
        return point_ok(c)
    if kind == "BoundingBox":
        return (
            isinstance(c, list) and len(c) == 4 and all(is_num(x) for x in c)
            and c[0] >= 0 and c[2] >= 0 and 0 <= c[1] <= MAXF and 0 <= c[3] <= MAXF
        )
    if kind == "LineString":
        return isinstance(c, list) and len(c) >= 2 and all(point_ok(p) for p in c)
    if kind == "MultiPoint":
        return isinstance(c, list) and len(c) >= 1 and all(point_ok(p) for p in c)

    def ring_ok(r):
        return isinstance(r, list) and len(r) >= 3 and all(point_ok(p) for p in r)

    def poly_ok(p):
        return isinstance(p, list) and len(p) >= 1 and all(ring_ok(r) for r in p)

    if kind == "Polygon":
        return poly_ok(c)
    if kind == "MultiPolygon":
        return isinstance(c, list) and len(c) >= 1 and all(poly_ok(p) for p in c)
    if kind == "MultiLineString":
        return (
            isinstance(c, list) and len(c) >= 1
            and all(isinstance(l, list) and len(l) >= 2 and all(point_ok(p) for p in l) and l[0][0] < l[-1][0] for l in c)
        )
    return False


def ref_normalise(kind, c):
    def fl(x):
        if isinstance(x, list):
            return [fl(y) for y in x]
        return float(x)

    c = fl(c)
    if kind == "BoundingBox":
        t0, f0, t1, f1 = c
        if t0 > t1:
            t0, t1 = t1, t0
        if f0 > f1:
            f0, f1 = f1, f0
        return [t0, f0, t1, f1]
    if kind == "LineString":
        if c[0][0] > c[-1][0]:
            return c[::-1]
    return c


PALETTE = [
    -1e-9, -1.0, -5e-324, -0.0, 0, 0.0, 5e-324, 1, MAXF, float(MAXF), math.nextafter(float(MAXF), math.inf),
    MAXF + 1, math.nextafter(float(MAXF), 0.0), 1e300, -1e300, 2.5, 4999999, 10**7,
]


def _leaf_paths(x, path=()):
    if isinstance(x, list):
        for i, e in enumerate(x):
            yield from _leaf_paths(e, path + (i,))
    else:
        yield path


def _list_paths(x, path=()):
    if isinstance(x, list):
        yield path
        for i, e in enumerate(x):
            yield from _list_paths(e, path + (i,))


def _get(x, path):
    for i in path:
        x = x[i]
    return x


def _set(x, path, v):
    if not path:
        return v
    x = copy.deepcopy(x)
    cur = x
    for i in path[:-1]:
        cur = cur[i]
    cur[path[-1]] = v
    return x


@st.composite
def mutated_geometry(draw):
    base = draw(geometry_spec())
    kind = base["type"]
    c = copy.deepcopy(base["coordinates"])
    nmut = draw(st.sampled_from([0, 1, 1, 1, 2]))
    muts = []
    for _ in range(nmut):
        m = draw(st.sampled_from(["leaf", "leaf", "leaf", "drop_comp", "add_comp", "truncate", "wrap", "unwrap", "reverse", "tag", "backward", "vertical", "empty", "int_leaf", "move_number", "move_member"]))
        muts.append(m)
        if m in ("leaf", "int_leaf"):
            paths = list(_leaf_paths(c))
            if not paths:
                continue
            p = paths[draw(st.integers(0, len(paths) - 1))]
            if m == "leaf":
                v = draw(st.sampled_from(PALETTE))
            else:
                v = draw(st.integers(-3, 5_000_003))
            c = _set(c, p, v)
        elif m in ("drop_comp", "add_comp"):
            lists = [p for p in _list_paths(c) if isinstance(_get(c, p), list) and _get(c, p) and not isinstance(_get(c, p)[0], list)]
            if not lists:
                continue
            p = lists[draw(st.integers(0, len(lists) - 1))]
            cur = list(_get(c, p))
            cur = cur[:-1] if m == "drop_comp" else cur + [draw(st.sampled_from([0.0, 1.0, 100.0]))]
            c = _set(c, p, cur)
        elif m == "truncate":
            lists = [p for p in _list_paths(c) if isinstance(_get(c, p), list) and _get(c, p) and isinstance(_get(c, p)[0], list)]
            if not lists:
                continue
            p = lists[draw(st.integers(0, len(lists) - 1))]
            cur = list(_get(c, p))
            keep = draw(st.integers(0, min(3, len(cur))))
            c = _set(c, p, cur[:keep])
        elif m == "wrap":
            lists = list(_list_paths(c)) or [()]
            p = lists[draw(st.integers(0, len(lists) - 1))]
            c = _set(c, p, [_get(c, p)])
        elif m == "unwrap":
            lists = [p for p in _list_paths(c) if isinstance(_get(c, p), list) and _get(c, p)]
            if not lists:
                continue
            p = lists[draw(st.integers(0, len(lists) - 1))]
            c = _set(c, p, _get(c, p)[0])
        elif m == "reverse":
            lists = [p for p in _list_paths(c) if isinstance(_get(c, p), list)]
            if not lists:
                continue
            p = lists[draw(st.integers(0, len(lists) - 1))]
            c = _set(c, p, list(_get(c, p))[::-1])
        elif m == "tag":
            kind = draw(st.sampled_from(ALL_KINDS))
        elif m in ("backward", "vertical"):
            if base["type"] == "MultiLineString" and isinstance(c, list) and c and isinstance(c[0], list) and len(c[0]) >= 2 and is_point(c[0][0]) and is_point(c[0][-1]):
                i = draw(st.integers(0, len(c) - 1))
                line = copy.deepcopy(c[i])
                if isinstance(line, list) and len(line) >= 2 and is_point(line[0]) and is_point(line[-1]):
                    if m == "backward":
                        line = line[::-1]
                    else:
                        line[-1] = [line[0][0], line[-1][1]]
                    c = _set(c, (i,), line)
        elif m in ("move_number", "move_member"):
            # two compensating defects inside one geometry: a number (or a whole member) leaves one list and joins a sibling, so every
            # total (numbers per geometry, rings per multi-polygon, points per multi-line) stays what it was
            groups = {}
            for q in _list_paths(c):
                x = _get(c, q)
                if q and isinstance(x, list) and x and ((m == "move_number" and not isinstance(x[0], list)) or (m == "move_member" and isinstance(x[0], list))):
                    groups.setdefault(q[:-1], []).append(q)
            sibs = [g for g in groups.values() if len(g) >= 2]
            if not sibs:
                continue
            g_ = sibs[draw(st.integers(0, len(sibs) - 1))]
            i, j = draw(st.permutations(range(len(g_))))[:2]
            src, dst = list(_get(c, g_[i])), list(_get(c, g_[j]))
            take = draw(st.integers(1, len(src)))
            dst, src = dst + src[len(src) - take :], src[: len(src) - take]
            c = _set(_set(c, g_[i], src), g_[j], dst)
        elif m == "empty":
            lists = [p for p in _list_paths(c)]
            if not lists:
                continue
            p = lists[draw(st.integers(0, len(lists) - 1))]
            c = _set(c, p, [])
    return {"type": kind, "coordinates": c, "base": base["type"], "muts": muts}


_REC = {}


def _recording(data):
    if "r" not in _REC:
        _REC["r"] = data.Recording(uuid="00000000-0000-0000-0000-000000000001", path="r.wav", duration=1.0, channels=1, samplerate=8000)
    return _REC["r"]


def _json_layout(obj, sel):
    """The same JSON value written the ways JSON text comes: json.dumps default, compact, indented over several lines (a file written
    with indent=2, or by hand), tab-indented with CRLF line ends, padded with blank lines, members in another order."""
    k = sel % 7
    if k == 0:
        return json.dumps(obj)
    if k == 1:
        return json.dumps(obj, separators=(",", ":"))
    if k == 2:
        return json.dumps(obj, indent=2)
    if k == 3:
        return json.dumps(obj, indent="\t").replace("\n", "\r\n")
    if k == 4:
        return "\n\n  " + json.dumps(obj, indent=1) + "\n"
    if k == 5:
        return json.dumps(dict(reversed(list(obj.items()))), indent=4)
    return " " + json.dumps(obj) + " \n"


def _ctor(data, kind):
    return getattr(data, kind)


_SUBCLASSES = {}


def _define_user_subclasses(data):
    """A user of the library may subclass the geometry classes (a box with an extra property, an interval with a stricter rule of
    its own).  That must not change what the nine classes and geometry_validate do: the subclasses are defined once per process."""
    if _SUBCLASSES:
        return
    import pydantic

    class LabelledBox(data.BoundingBox):
        @property
        def label(self):
            return "box"

    class ShortCall(data.TimeInterval):
        @pydantic.field_validator("coordinates")
        @classmethod
        def _short(cls, v):
            if v[1] - v[0] > 1e-3:
                raise ValueError("a short call lasts at most a millisecond")
            return v

    class TaggedPoint(data.Point):
        pass

    _SUBCLASSES.update({"LabelledBox": LabelledBox, "ShortCall": ShortCall, "TaggedPoint": TaggedPoint})


def check(spec, ctx):
    import pydantic
    from soundevent import data

    _define_user_subclasses(data)
    kind, c = spec["type"], spec["coordinates"]
    exp = ref_valid(kind, c)
    on_boundary = False
    if exp:
        leaves = [_get(c, p) for p in _leaf_paths(c)] if isinstance(c, list) else [c]
        on_boundary = any(v == 0 or v == MAXF for v in leaves)
    labels = [f"tag={kind}", "valid" if exp else "invalid", f"nmut={len(spec['muts'])}"] + [f"mut={m}" for m in spec["muts"]]
    ctx.case(spec, nontrivial=bool(spec["muts"]) or on_boundary, labels=labels, out={"ref_valid": exp})

    results = {}
    objs = {}
    # 1. constructor
    try:
        objs["ctor"] = _ctor(data, kind)(coordinates=copy.deepcopy(c))
        results["ctor"] = True
    except pydantic.ValidationError:
        results["ctor"] = False
    except Exception as e:
        ctx.fail(f"{kind}(coordinates=...) raised {type(e).__name__}: {e} (must be ValidationError or succeed)", spec, repr(e), "ValidationError", kind="wrong_exception")
        results["ctor"] = False
    # 2-4. geometry_validate in the three modes
    d = {"type": kind, "coordinates": copy.deepcopy(c)}
    inputs = {
        "dict": (d, "dict"),
        "attributes": (types.SimpleNamespace(type=kind, coordinates=copy.deepcopy(c)), "attributes"),
        "json": (_json_layout(d, len(json.dumps(c)) + 3 * len(spec["muts"])), "json"),
    }
    if len(spec["muts"]) % 2 == 0:
        # mode names that arrive at run time (equal to the literals, not the same string objects)
        inputs = {k: (o, "".join(list(m))) for k, (o, m) in inputs.items()}
    for name, (obj, mode) in inputs.items():
        before = copy.deepcopy(obj.__dict__ if name == "attributes" else obj)
        try:
            objs[name] = data.geometry_validate(obj, mode=mode)
            results[name] = True
        except ValueError:  # includes pydantic.ValidationError (a ValueError subclass)
            results[name] = False
        except Exception as e:
            ctx.fail(f"geometry_validate(mode={mode}) raised {type(e).__name__}: {e} (must be ValueError or succeed)", spec, repr(e), "ValueError", kind="wrong_exception")
            results[name] = False
        # validation is a pure function of its input: the caller's object is untouched and a second
        # validation of the very same object gives the same verdict (and an equal geometry)
        after = obj.__dict__ if name == "attributes" else obj
        if after != before:
            ctx.fail(f"geometry_validate(mode={mode}) modified its input: {str(before)[:120]} -> {str(after)[:120]}", spec, str(after)[:200], str(before)[:200], kind="input_mutated")
        try:
            second = data.geometry_validate(obj, mode=mode)
            ok2 = True
        except ValueError:
            second, ok2 = None, False
        except Exception as e:
            ctx.fail(f"second geometry_validate(mode={mode}) of the same object raised {type(e).__name__}", spec, repr(e), None, kind="wrong_exception")
            ok2 = results[name]
        if ok2 != results[name] or (ok2 and second != objs[name]):
            ctx.fail(f"validating the same {name} object twice gives different results ({results[name]} then {ok2})", spec, [results[name], ok2], None, kind="not_repeatable")

    # 2b. the same data carrying members that are no part of the rules (GeoJSON's optional "bbox", an "id" or "properties" written by
    # another tool): acceptance depends on type and coordinates only
    extra = {"bbox": [0.0, 0.0, 1.0, 1.0], "id": "a1", "properties": {"note": "x"}}
    for name, build in (
        ("dict+extra", lambda: data.geometry_validate({**copy.deepcopy(d), **copy.deepcopy(extra)}, mode="dict")),
        ("json+extra", lambda: data.geometry_validate(_json_layout({**d, **extra}, len(json.dumps(c)) + 1), mode="json")),
        ("attributes+extra", lambda: data.geometry_validate(types.SimpleNamespace(type=kind, coordinates=copy.deepcopy(c), **copy.deepcopy(extra)), mode="attributes")),
        ("ctor+extra", lambda: _ctor(data, kind)(coordinates=copy.deepcopy(c), **copy.deepcopy(extra))),
    ):
        try:
            objs[name] = build()
            results[name] = True
        except ValueError:
            results[name] = False
        except Exception as e:
            ctx.fail(f"{name} raised {type(e).__name__}: {e} (must be a validation error or succeed)", spec, repr(e), "ValueError", kind="wrong_exception")
            results[name] = False

    # 2c. the same numbers in other representations (tuples, numpy scalars, numpy arrays, Decimal, Fraction - all value-preserving):
    # the verdict and the resulting geometry are the same.  Which representation is tried follows from the spec (deterministic).
    import decimal
    import fractions

    def conv(x, f):
        if isinstance(x, (list, tuple)):
            return [conv(y, f) for y in x]
        return f(x) if is_num(x) else x

    def tup(x):
        return tuple(tup(y) for y in x) if isinstance(x, (list, tuple)) else x

    reps = [("tuples", tup), ("numpy.float64", lambda z: conv(z, np.float64)), ("Decimal", lambda z: conv(z, lambda v: decimal.Decimal(v))), ("Fraction", lambda z: conv(z, lambda v: fractions.Fraction(v)))]
    if exp:  # an array form only for valid structures (numpy turns a one-element array into a scalar, blurring the nesting rules)
        try:
            arr = np.array(c, dtype=float)
            reps.append(("numpy.ndarray", lambda z: arr))
        except ValueError:
            pass  # ragged (lines / rings of different lengths): no array form
    rname, rfun = reps[(len(json.dumps(c)) + len(spec["muts"])) % len(reps)]
    if all((not isinstance(v, float)) or math.isfinite(v) for v in ([_get(c, q) for q in _leaf_paths(c)] if isinstance(c, list) else [c])):
        cc = rfun(copy.deepcopy(c))
        for name, build in (
            (f"ctor[{rname}]", lambda: _ctor(data, kind)(coordinates=cc)),
            (f"dict[{rname}]", lambda: data.geometry_validate({"type": kind, "coordinates": cc}, mode="dict")),
            (f"attributes[{rname}]", lambda: data.geometry_validate(types.SimpleNamespace(type=kind, coordinates=cc), mode="attributes")),
        ):
            try:
                objs[name] = build()
                results[name] = True
            except ValueError:
                results[name] = False
            except Exception as e:
                ctx.fail(f"{name} raised {type(e).__name__}: {str(e)[:150]} (must be a validation error or succeed)", spec, repr(e)[:200], "ValueError", kind="wrong_exception")
                results[name] = False

    # 5. through a model field typed with the Geometry union (a sound event built from plain data)
    rec = _recording(data)
    for name, build in (
        ("field_dict", lambda: data.SoundEvent.model_validate({"geometry": copy.deepcopy(d), "recording": rec}).geometry),
        ("field_json", lambda: data.SoundEvent.model_validate_json(json.dumps({"geometry": d, "recording": json.loads(rec.model_dump_json())})).geometry),
    ):
        try:
            objs[name] = build()
            results[name] = objs[name] is not None
        except pydantic.ValidationError:
            results[name] = False
        except Exception as e:
            ctx.fail(f"SoundEvent(geometry=...) via {name} raised {type(e).__name__}: {e}", spec, repr(e), "ValidationError", kind="wrong_exception")
            results[name] = False

    for name, ok in results.items():
        if ok and not exp:
            ctx.fail(f"false accept via {name}: {kind} coordinates {json.dumps(c)[:200]} violate the rules but an object was created", spec, results, exp, kind="false_accept")
        if exp and not ok:
            ctx.fail(f"false reject via {name}: {kind} coordinates {json.dumps(c)[:200]} satisfy every rule but were rejected", spec, results, exp, kind="false_reject")
    if len(set(results.values())) != 1:
        ctx.fail(f"entry points disagree: {results}", spec, results, exp, kind="entry_points_disagree")

    if not exp:
        return
    norm = ref_normalise(kind, c)
    for name, g in objs.items():
        if type(g).__name__ != kind or g.type != kind or not isinstance(g, getattr(data, kind)):
            ctx.fail(f"{name}: object of class {type(g).__name__} / tag {g.type} for type tag {kind}", spec, type(g).__name__, kind, kind="wrong_class")
        if g.coordinates != norm:
            ctx.fail(f"{name}: accepted {kind} is not in normal form / coordinates changed", spec, g.coordinates, norm, kind="normal_form")
        if kind == "BoundingBox" and not (g.coordinates[0] <= g.coordinates[2] and g.coordinates[1] <= g.coordinates[3]):
            ctx.fail("bounding box not normalised", spec, g.coordinates, norm, kind="normal_form")
        if kind == "LineString" and not g.coordinates[0][0] <= g.coordinates[-1][0]:
            ctx.fail("line string runs backward in time", spec, g.coordinates, norm, kind="normal_form")
        back = data.geometry_validate(g.model_dump_json(indent=(2 if len(json.dumps(c)) % 2 else None)), mode="json")
        if back != g or type(back) is not type(g):
            ctx.fail(f"{name}: re-validating the JSON dump gives a different geometry", spec, back.model_dump(), g.model_dump(), kind="json_roundtrip")
        back2 = data.geometry_validate(g, mode="attributes")
        if back2 != g or type(back2) is not type(g):
            ctx.fail(f"{name}: re-validating the instance (attributes mode) gives a different geometry", spec, back2.model_dump(), g.model_dump(), kind="attr_roundtrip")
    # foreign type tag passed to a constructor must be refused
    other = ALL_KINDS[(ALL_KINDS.index(kind) + 1 + len(spec["muts"])) % len(ALL_KINDS)]
    if other != kind:
        try:
            g = _ctor(data, kind)(type=other, coordinates=copy.deepcopy(c))
        except pydantic.ValidationError:
            pass
        else:
            ctx.fail(f"{kind}(type={other!r}) accepted a foreign type tag", spec, g.type, "ValidationError", kind="foreign_tag")


def check_envelope(spec, ctx):
    """geometry_validate on malformed envelopes: must raise ValueError, never anything else, never return."""
    from soundevent import data

    obj, mode = spec["obj"], spec["mode"]
    ctx.case(spec, nontrivial=True, labels=[spec["why"]])
    if mode == "attributes":
        obj = types.SimpleNamespace(**obj) if isinstance(obj, dict) else obj
    try:
        g = data.geometry_validate(obj, mode=mode)
    except ValueError:
        return
    except Exception as e:
        ctx.fail(f"geometry_validate({spec['why']}) raised {type(e).__name__}: {e}", spec, repr(e), "ValueError", kind="wrong_exception")
        return
    ctx.fail(f"geometry_validate accepted a malformed envelope ({spec['why']})", spec, repr(g), "ValueError", kind="false_accept")


@st.composite
def envelope_case(draw):
    g = draw(geometry_spec(small=True))
    why = draw(st.sampled_from(["no_type", "unknown_type", "no_coordinates", "json_not_text", "json_garbage", "dict_is_list", "lower_type", "type_none"]))
    d = {"type": g["type"], "coordinates": g["coordinates"]}
    mode = draw(st.sampled_from(["dict", "attributes", "json"]))
    if why == "no_type":
        d.pop("type")
    elif why == "unknown_type":
        d["type"] = draw(st.sampled_from(["Circle", "", "Box", "GeometryCollection"]))
    elif why == "lower_type":
        d["type"] = d["type"].lower()
    elif why == "type_none":
        d["type"] = None
    elif why == "no_coordinates":
        d.pop("coordinates")
    obj = d
    if why == "json_not_text":
        mode = "json"  # a dict handed to json mode
    elif why == "json_garbage":
        mode = "json"
        obj = json.dumps(d)[: draw(st.integers(0, 12))] + draw(st.sampled_from(["", "}", "[", "nul"]))
        try:
            parsed = json.loads(obj)
            if isinstance(parsed, dict):
                obj = "{"
        except Exception:
            pass
    elif why == "dict_is_list":
        mode = "dict"
        obj = [d]
    elif mode == "json":
        obj = json.dumps(d)
    return {"obj": obj, "mode": mode, "why": why}


SUBS = [
    Sub("accept_iff_valid", check, strategy=mutated_geometry, quick=24000, thorough=700000, min_nontrivial=0.5),
    Sub("malformed_envelope", check_envelope, strategy=envelope_case, quick=2000, thorough=30000),
]


# ---- thorough tier: the same property under coverage-guided fuzzing (atheris) --------


FUZZ_CHILD = r"""
import sys, os, json, time
sys.path.insert(0, os.environ['VF_HERE'])
import atheris
with atheris.instrument_imports(include=['soundevent.data.geometries']):
    import soundevent.data.geometries  # noqa
from hypothesis import given, settings, HealthCheck
from vf.core import Ctx, Violation
from vf.checks import c03
ctx = Ctx('C03', 'accept_iff_valid', {})
out = os.environ['VF_FUZZ_OUT']
state = {'n': 0, 'calls': 0, 'viol': None}
@settings(database=None, deadline=None, suppress_health_check=list(HealthCheck))
@given(c03.mutated_geometry())
def prop(spec):
    state['n'] += 1
    try:
        c03.check(spec, ctx)
    except Violation as v:
        state['viol'] = {'subcheck': 'accept_iff_valid', 'message': v.message, 'spec': spec, 'kind': v.kind, 'observed': v.observed, 'expected': v.expected}
        flush()
        raise
def flush():
    with open(out, 'w') as fh:
        json.dump({'execs': state['calls'], 'valid_examples': state['n'], 'evaluations': ctx.evaluations, 'distinct_nontrivial': len(ctx.nontrivial), 'violation': state['viol']}, fh, default=repr)
def one(data):
    state['calls'] += 1
    prop.hypothesis.fuzz_one_input(data)
    if state['calls'] % 1000 == 0:
        flush()
atheris.Setup(sys.argv, one)
try:
    atheris.Fuzz()
finally:
    flush()
"""


def post(tier, seed, failures):
    if tier != "thorough":
        return {"atheris": "not run in the quick tier"}
    here = os.path.dirname(os.path.dirname(os.path.dirname(os.path.abspath(__file__))))
    try:
        sys.path.insert(0, os.path.join(here, ".deps"))
        import atheris  # noqa: F401
    except Exception as e:  # pragma: no cover
        return {"atheris": f"skipped: atheris not importable ({e})"}
    import shutil
    import tempfile

    info = {}
    runs = int(os.environ.get("VF_FUZZ_RUNS", "60000"))
    for corpus_kind in ("empty", "seeded"):
        work = tempfile.mkdtemp(prefix="vf-c03-fuzz.")
        try:
            corpus = os.path.join(work, "corpus")
            os.makedirs(corpus)
            if corpus_kind == "seeded":
                for i in range(32):
                    with open(os.path.join(corpus, f"s{i}"), "wb") as fh:
                        fh.write(bytes([(i * 37 + j * 11) % 256 for j in range(64 + i)]))
            outp = os.path.join(work, "stats.json")
            script = os.path.join(work, "fuzz_child.py")
            with open(script, "w") as fh:
                fh.write(FUZZ_CHILD)
            env = dict(os.environ, VF_HERE=here, VF_FUZZ_OUT=outp)
            cmd = [sys.executable, script, corpus, f"-runs={runs}", f"-seed={seed}", "-max_len=2048", "-len_control=0", "-print_final_stats=0"]
            r = subprocess.run(cmd, env=env, capture_output=True, text=True, cwd=work, timeout=1500)
            stats = {}
            if os.path.exists(outp):
                with open(outp) as fh:
                    stats = json.load(fh)
            info[corpus_kind] = {k: stats.get(k) for k in ("execs", "valid_examples", "evaluations", "distinct_nontrivial")}
            info[corpus_kind]["exit"] = r.returncode
            if stats.get("violation"):
                failures.append(stats["violation"])
        except subprocess.TimeoutExpired:
            info[corpus_kind] = {"budget_exhausted": True}
        finally:
            shutil.rmtree(work, ignore_errors=True)
    return {"atheris": info}
