"""C18 - audio paths are stored relative to the audio directory and relocate on load."""

from __future__ import annotations

import json
import os
from pathlib import Path, PurePosixPath

from hypothesis import strategies as st

from vf import graphs
from vf.checks.c01 import scratch
from vf.core import Sub

PROP = "C18"
TECHNIQUE = "property-based testing: round trip with a relocation oracle (save under A, load under B maps A/x to B/x) + inspection of the stored paths in the JSON text + must-fail cases for recordings outside the audio directory"
LEVEL_TEXT = (
    "For each of the eight collection types (enumerated) Hypothesis draws an audio directory A (depth 1-4, unicode / spaces / dots, absolute or "
    "relative, passed as str or Path), recordings at A/x with nested x, and another directory B; the saved JSON must store exactly x (posix) for "
    "every recording, loading under B must give B/x for every recording reachable from the loaded object, no audio dir must pass paths through, and "
    "a recording outside A (sibling with a common name prefix, parent, unrelated, relative) must make save raise and leave the target file untouched. Exploration."
)
LEVEL_NOTE = "paths are compared as pathlib paths; only path arithmetic is exercised (no audio files are opened)"
RULE = (
    "Hypothesis: vf.graphs.collection_spec per collection type (recording paths are nested relative paths from a text alphabet without '/' and NUL); "
    "directory names from the same alphabet; outside-placement in {none, sibling_prefix, parent, unrelated, relative}. Non-trivial = some x has >= 2 components and B != A, "
    "or an outside recording."
)
ASSUMPTIONS = ["path components contain no '/' or NUL and are not '.' or '..'", "the audio directory itself need not exist on disk"]


def make_case(ctype):
    @st.composite
    def case(draw):
        spec = draw(graphs.collection_spec(ctype=ctype))
        comps = st.lists(graphs._comp, min_size=1, max_size=4)
        spec["A"] = draw(comps)
        spec["B"] = draw(comps)
        spec["absolute"] = draw(st.sampled_from([True, True, False]))
        spec["as_str"] = draw(st.booleans())
        # how the directory is handed over: str, pathlib.Path, or a bare os.PathLike (an object with __fspath__, like os.DirEntry)
        spec["dir_repr"] = draw(st.sampled_from(["default", "default", "fspath"]))
        # a directory of depth zero: the file-system root (absolute paths) or the current directory (relative paths)
        spec["depth0"] = draw(st.integers(0, 7)) == 0
        spec["outside"] = draw(st.sampled_from(["none", "none", "none", "sibling_prefix", "parent", "unrelated", "relative"]))
        spec["mode"] = draw(st.sampled_from(["relocate", "relocate", "passthrough"]))
        # the audio directory exists on disk and the recordings sit behind a symbolic link inside it (to a sibling folder inside
        # the directory, or to a store outside of it): paths are stored as the user wrote them, links are not resolved
        spec["symlink"] = draw(st.sampled_from([None, None, None, None, "inside", "outside"]))
        return spec

    return case


def check(spec, ctx):
    from soundevent import io

    d = Path(scratch())
    base = d / "c18" if spec["absolute"] else Path("c18rel")
    A = base.joinpath(*spec["A"])
    B = base.joinpath("other", *spec["B"])
    if spec.get("depth0") and spec["mode"] == "relocate" and spec["outside"] == "none" and not spec.get("symlink"):
        A = Path("/") if spec["absolute"] else Path(".")
        ctx.label("audio_dir_depth0")
    nrec = len(spec["recordings"])
    rels = [r["path"] for r in spec["recordings"]]
    nested = any("/" in r for r in rels)
    doc = str(d / ["doc18.json", "doc18.v2.json", "site.2024-05-01.json"][len(json.dumps(spec, default=str)) % 3])

    # ---- passthrough: no audio directory -------------------------------------------------
    if spec["mode"] == "passthrough" or nrec == 0:
        obj, _ = graphs.build(spec, audio_root=A)
        ctx.case(spec, nontrivial=nested, labels=[spec["ctype"], "passthrough"])
        ctx.call(spec, "io.save (no audio_dir)", io.save, obj, doc)
        loaded = ctx.call(spec, "io.load (no audio_dir)", io.load, doc)
        want = {str(r.uuid): Path(r.path) for r in graphs.walk(obj)["recording_objects"]}
        got = {str(r.uuid): Path(r.path) for r in graphs.walk(loaded)["recording_objects"]}
        if got != want:
            ctx.fail(f"{spec['ctype']}: without an audio directory paths changed: {got} != {want}", spec, {k: str(v) for k, v in got.items()}, {k: str(v) for k, v in want.items()}, kind="passthrough")
        with open(doc) as fh:
            stored = {r["uuid"]: r["path"] for r in json.load(fh)["data"].get("recordings") or []}
        for u, p in want.items():
            if u in stored and Path(stored[u]) != p:
                ctx.fail(f"{spec['ctype']}: stored path {stored[u]!r} differs from the recording's path {str(p)!r} (no audio dir)", spec, stored[u], str(p), kind="passthrough")
        return

    class _FsPath:
        def __init__(self, p):
            self._p = str(p)

        def __fspath__(self):
            return self._p

    if spec.get("dir_repr") == "fspath":
        arg = _FsPath
    else:
        arg = (lambda p: str(p)) if spec["as_str"] else (lambda p: p)

    # ---- outside recording: save must fail and write nothing -----------------------------------
    if spec["outside"] != "none":
        obj, b = graphs.build(spec, audio_root=A)
        reach = graphs.walk(obj)["recording_objects"]
        ctx.case(spec, nontrivial=True, labels=[spec["ctype"], f"outside={spec['outside']}", "reachable_outside" if reach else "no_reachable_recording"])
        if not reach:
            return
        victim = reach[0]
        name = PurePosixPath(str(victim.path)).name
        if spec["outside"] == "sibling_prefix":
            newp = A.parent / (A.name + "_backup") / name
        elif spec["outside"] == "parent":
            newp = A.parent / name
        elif spec["outside"] == "unrelated":
            newp = (Path("/somewhere/else") if spec["absolute"] else Path("elsewhere")) / name
        else:
            newp = Path("loose") / name if spec["absolute"] else Path("/abs") / name
        victim.path = newp  # Recording is mutable; every holder shares the object
        sentinel = b"previous content"
        with open(doc, "wb") as fh:
            fh.write(sentinel)
        try:
            io.save(obj, doc, audio_dir=arg(A))
        except Exception:
            with open(doc, "rb") as fh:
                if fh.read() != sentinel:
                    ctx.fail(f"{spec['ctype']}: save failed for a recording outside the audio directory but the target file was modified", spec, None, None, kind="partial_write")
            return
        with open(doc) as fh:
            stored = [r["path"] for r in json.load(fh)["data"].get("recordings") or []]
        ctx.fail(f"{spec['ctype']}: recording {str(newp)!r} lies outside audio_dir {str(A)!r} but save() succeeded; stored paths {stored}", spec, stored, "an error", kind="outside_accepted")
        return

    # ---- relocation -------------------------------------------------------------------------------
    rec_root = A
    if spec.get("symlink") and spec["absolute"]:
        import shutil

        shutil.rmtree(base, ignore_errors=True)
        target = (A / "real store") if spec["symlink"] == "inside" else (base / "outside store")
        os.makedirs(target, exist_ok=True)
        os.makedirs(A, exist_ok=True)
        os.symlink(target, A / "lnk", target_is_directory=True)
        rec_root = A / "lnk"
        ctx.label(f"symlink={spec['symlink']}")
    try:
        _relocation(spec, ctx, io, graphs, A, B, rec_root, arg, nested, doc)
    finally:
        if rec_root != A:
            shutil.rmtree(base, ignore_errors=True)


def _relocation(spec, ctx, io, graphs, A, B, rec_root, arg, nested, doc):
    obj, _ = graphs.build(spec, audio_root=rec_root)
    ctx.case(spec, nontrivial=nested and A != B, labels=[spec["ctype"], "relocate", "abs" if spec["absolute"] else "rel", "str" if spec["as_str"] else "Path", "nested" if nested else "flat"])
    ctx.call(spec, "io.save(audio_dir=A)", io.save, obj, doc, audio_dir=arg(A))
    with open(doc) as fh:
        data = json.load(fh)["data"]
    want_rel = {str(r.uuid): PurePosixPath(*Path(r.path).relative_to(A).parts) for r in graphs.walk(obj)["recording_objects"]}
    stored = {r["uuid"]: r["path"] for r in data.get("recordings") or []}
    for u, rel in want_rel.items():
        if u not in stored:
            ctx.fail(f"{spec['ctype']}: recording {u} missing from the document", spec, sorted(stored), u, kind="missing")
        elif PurePosixPath(stored[u]) != rel or stored[u].startswith("/"):
            ctx.fail(f"{spec['ctype']}: stored path {stored[u]!r} is not the path relative to the audio directory {str(rel)!r}", spec, stored[u], str(rel), kind="stored_path")
    # the same collection saved again under the PARENT directory (whole archive instead of one site) and then under A again:
    # every save is relative to the directory it was given, whatever was saved before in this process
    for adir in (A.parent, A):
        ctx.call(spec, f"io.save(audio_dir={'A.parent' if adir != A else 'A again'})", io.save, obj, doc, audio_dir=arg(adir))
        with open(doc) as fh:
            st2 = {r["uuid"]: r["path"] for r in json.load(fh)["data"].get("recordings") or []}
        for r in graphs.walk(obj)["recording_objects"]:
            want2 = PurePosixPath(*Path(r.path).relative_to(adir).parts)
            if PurePosixPath(st2.get(str(r.uuid), "")) != want2:
                ctx.fail(f"{spec['ctype']}: saved under {str(adir)!r} after an earlier save under another directory: stored path {st2.get(str(r.uuid))!r}, expected {str(want2)!r}", spec, st2.get(str(r.uuid)), str(want2), kind="stored_path_sequence")
    loaded = ctx.call(spec, "io.load(audio_dir=B)", io.load, doc, audio_dir=arg(B))
    got = {str(r.uuid): Path(r.path) for r in graphs.walk(loaded)["recording_objects"]}
    want = {u: B.joinpath(*rel.parts) for u, rel in want_rel.items()}
    if got != want:
        bad = next((u for u in want if got.get(u) != want[u]), None)
        ctx.fail(
            f"{spec['ctype']}: saved under A, loaded under B: recording {bad} has path {str(got.get(bad))!r}, expected {str(want.get(bad))!r}",
            spec, {k: str(v) for k, v in got.items()}, {k: str(v) for k, v in want.items()}, kind="relocate",
        )
    # loading under a RELATIVE directory that is called like the first folder(s) of a stored path (an archive laid out as audio/<site>/...,
    # loaded from inside a folder that is itself called audio): the directory is joined in front all the same
    nested_rel = next((rel for rel in want_rel.values() if len(rel.parts) > 1), None)
    if nested_rel is not None:
        for depth in (1, len(nested_rel.parts) - 1):
            B2 = Path(*nested_rel.parts[:depth])
            loaded2 = ctx.call(spec, f"io.load(audio_dir={str(B2)!r})", io.load, doc, audio_dir=arg(B2))
            got2 = {str(r.uuid): Path(r.path) for r in graphs.walk(loaded2)["recording_objects"]}
            want2 = {u: B2.joinpath(*rel.parts) for u, rel in want_rel.items()}
            if got2 != want2:
                bad = next((u for u in want2 if got2.get(u) != want2[u]), None)
                ctx.fail(f"{spec['ctype']}: loaded under the relative directory {str(B2)!r}: recording {bad} (stored as {str(want_rel.get(bad))!r}) has path {str(got2.get(bad))!r}, expected {str(want2.get(bad))!r}", spec, str(got2.get(bad)), str(want2.get(bad)), kind="relocate_overlapping_names")
        ctx.label("load_under_dir_named_like_stored_prefix")
    # a directory whose first component is a literal "~" (a folder called ~, or a path the caller chose not to expand): the directory is
    # joined in front as it was given - expanding the home directory is the caller's decision
    for B3 in (Path("~/field data"), Path("~")):
        loaded3 = ctx.call(spec, f"io.load(audio_dir={str(B3)!r})", io.load, doc, audio_dir=arg(B3))
        got3 = {str(r.uuid): Path(r.path) for r in graphs.walk(loaded3)["recording_objects"]}
        want3 = {u: B3.joinpath(*rel.parts) for u, rel in want_rel.items()}
        if got3 != want3:
            bad = next((u for u in want3 if got3.get(u) != want3[u]), None)
            ctx.fail(f"{spec['ctype']}: loaded under {str(B3)!r}: recording {bad} has path {str(got3.get(bad))!r}, expected {str(want3.get(bad))!r}", spec, str(got3.get(bad)), str(want3.get(bad)), kind="relocate_tilde")
    # loading under A again restores the original paths (save/load with the same directory)
    back = ctx.call(spec, "io.load(audio_dir=A)", io.load, doc, audio_dir=arg(A))
    got_a = {str(r.uuid): Path(r.path) for r in graphs.walk(back)["recording_objects"]}
    want_a = {str(r.uuid): Path(r.path) for r in graphs.walk(obj)["recording_objects"]}
    if got_a != want_a:
        ctx.fail(f"{spec['ctype']}: loading under the same audio directory does not restore the paths", spec, {k: str(v) for k, v in got_a.items()}, {k: str(v) for k, v in want_a.items()}, kind="same_dir")

    # two saves / two loads running in two threads (one suspended inside the library while the other runs to its end), into two files
    # of the same folder and under two different audio directories: each document is relative to its own directory
    doc2 = doc[:-5] + "-b.json"

    def save_read(target, adir):
        io.save(obj, target, audio_dir=arg(adir))
        with open(target) as fh:
            return {r["uuid"]: r["path"] for r in json.load(fh)["data"].get("recordings") or []}

    def load_paths(adir):
        return {str(r.uuid): str(r.path) for r in graphs.walk(io.load(doc, audio_dir=arg(adir)))["recording_objects"]}

    if ctx.interleave(spec, "io.save(audio_dir=...)", lambda: save_read(doc, A), lambda: save_read(doc2, A.parent), every=3, max_pauses=40):
        ctx.interleave(spec, "io.load(audio_dir=...)", lambda: load_paths(B), lambda: load_paths(A), max_pauses=40)



SUBS = [Sub(f"paths_{ct}", check, strategy=make_case(ct), quick=250, thorough=8000, min_nontrivial=0.1) for ct in graphs.CTYPES]
