"""C14 - clip segmentation tiles the clip on the hop lattice."""

from __future__ import annotations

import math
import uuid as uuidlib
from fractions import Fraction as Fr

import numpy as np
from hypothesis import strategies as st

from vf.core import Sub

PROP = "C14"
TECHNIQUE = "property-based testing: reference enumeration of the hop lattice in exact (Fraction) arithmetic on a dyadic grid + decisive/borderline free floats; identifier laws (determinism, parent dependence, distinctness)"
LEVEL_TEXT = (
    "segment_clip is run on generated clips (start, length), durations and hops on a dyadic grid (hop <, =, > duration; length an exact and a non-exact multiple "
    "of the hop; duration longer than the clip; clips far into a long recording) where every sum is exact, and the yielded (start, end) list must equal the reference "
    "enumeration exactly, for both include_incomplete settings; free floats and decimal steps (0.1, 0.2, 1/3) are compared up to a stated ulp band on the last windows. "
    "Same recording, coverage for hop <= duration, identifiers deterministic / parent-dependent / distinct, non-positive duration or hop rejected. Exploration."
)
LEVEL_NOTE = "grid class demands exact equality; free class: a window whose fit / inside decision has a margin below 16 ulp of the clip end is borderline and may be present or absent"
RULE = (
    "Hypothesis: grid class - clip start k*g, length n*g, duration and hop multiples of g with g a power of two, offsets up to 14400 s; free class - st.floats and decimal palettes. "
    "Non-trivial = length/hop is not a whole number, or hop > duration."
)
ASSUMPTIONS = ["clip.start_time <= clip.end_time, duration and hop finite"]


def reference(start, end, dur, hop, incomplete):
    """Exact lattice enumeration with Fractions of the given floats."""
    s, e, d, h = Fr(start), Fr(end), Fr(dur), Fr(hop)
    out = []
    i = 0
    while True:
        si = s + i * h
        if not si < e:
            break
        if si + d <= e:
            out.append((si, si + d, (e - (si + d)), True))
        elif incomplete:
            out.append((si, e, (si + d) - e, False))
        else:
            break
        i += 1
        if i > 100000:
            raise ValueError("spec too large")
    return out


@st.composite
def grid_case(draw):
    g = draw(st.sampled_from([2.0**-4, 2.0**-2, 1.0, 0.5]))
    # clips may start before t = 0 (a clip padded around an event at the very beginning of a recording)
    start = draw(st.sampled_from([0, 0, 1, 7, 3600 * 16, 14400 * 16, -3, -40])) * g if g < 1 else draw(st.sampled_from([0.0, 3.0, 3600.0, 10000.0, -2.0, -7.0]))
    n = draw(st.integers(0, 60))
    d = draw(st.integers(1, 24))
    hop_mode = draw(st.sampled_from(["none", "lt", "eq", "gt", "any"]))
    if hop_mode == "none":
        h = None
    elif hop_mode == "lt":
        h = draw(st.integers(1, max(1, d - 1)))
    elif hop_mode == "eq":
        h = d
    elif hop_mode == "gt":
        h = d + draw(st.integers(1, 12))
    else:
        h = draw(st.integers(1, 30))
    return {"start": start, "length": n * g, "duration": d * g, "hop": None if h is None else h * g, "incomplete": draw(st.booleans()), "cls": "grid", "salt": draw(st.integers(1, 2**30))}


@st.composite
def free_case(draw):
    mode = draw(st.sampled_from(["decimal", "floats"]))
    if mode == "decimal":
        start = draw(st.sampled_from([0.0, 0.1, 3.7, 100.3, 10000.0]))
        length = draw(st.sampled_from([1.0, 2.0, 5.0, 10.0, 0.7, 3.3]))
        dur = draw(st.sampled_from([0.1, 0.2, 0.4, 0.05, 1 / 3, 0.25, 1.0, 3.0]))
        hop = draw(st.one_of(st.none(), st.sampled_from([0.1, 0.2, 0.4, 0.05, 1 / 3, 0.25, 0.7, 1.0])))
    else:
        start = draw(st.floats(0.0, 1000.0, allow_nan=False))
        length = draw(st.floats(0.0, 50.0, allow_nan=False))
        dur = draw(st.floats(0.05, 60.0, allow_nan=False))
        hop = draw(st.one_of(st.none(), st.floats(0.05, 60.0, allow_nan=False)))
    return {"start": start, "length": length, "duration": dur, "hop": hop, "incomplete": draw(st.booleans()), "cls": "free", "salt": draw(st.integers(1, 2**30))}


def _clip(spec):
    from soundevent import data

    # clip times are recording times: whether the recording is time-expanded (bat detectors: x10; slowed-down playback: x0.5) is none
    # of the segmentation's business.  The factor follows the spec's salt.
    te = [1.0, 1.0, 10.0, 0.5, 8.0][spec["salt"] % 5]
    rec = data.Recording(uuid=str(uuidlib.UUID(int=7)), path="r.wav", duration=1e6, channels=1, samplerate=8000, time_expansion=te)
    end = spec["start"] + spec["length"]
    return data.Clip(uuid=str(uuidlib.UUID(int=spec["salt"])), recording=rec, start_time=spec["start"], end_time=end), rec, end


def check(spec, ctx):
    from soundevent import data
    from soundevent.operations import segment_clip

    clip, rec, end = _clip(spec)
    start, dur, hop, inc = spec["start"], spec["duration"], spec["hop"], spec["incomplete"]
    eff_hop = dur if hop is None else hop
    if dur <= 0 or eff_hop <= 0 or spec["length"] < 0:
        raise ValueError("malformed spec")
    ratio = Fr(end) - Fr(start)
    whole = (ratio / Fr(eff_hop)).denominator == 1
    nontrivial = (not whole) or eff_hop > dur
    kw = {"duration": dur, "include_incomplete": inc}
    if hop is not None:
        kw["hop"] = hop
    from vf.core import snapshot

    before = snapshot(clip)
    segs = ctx.call(spec, f"segment_clip(clip=[{start},{end}], {kw})", lambda: list(segment_clip(clip, **kw)))
    ctx.unchanged(spec, "segment_clip: the parent clip", before, clip)
    ctx.case(spec, nontrivial=nontrivial, labels=[spec["cls"], "incomplete" if inc else "complete_only", "hop<d" if eff_hop < dur else ("hop=d" if eff_hop == dur else "hop>d"), "whole" if whole else "nonwhole"], out={"n": len(segs)})
    ref = reference(start, end, dur, eff_hop, inc)
    got = [(s.start_time, s.end_time) for s in segs]
    for s in segs:
        if not isinstance(s, data.Clip) or s.recording is not rec and s.recording != rec:
            ctx.fail("segment does not belong to the parent's recording", spec, None, None, kind="recording")
        if s.start_time < clip.start_time or s.end_time > clip.end_time or s.start_time > s.end_time:
            ctx.fail(f"segment [{s.start_time}, {s.end_time}] lies outside the parent clip [{start}, {end}]", spec, [s.start_time, s.end_time], [start, end], kind="inside")
    if spec["cls"] == "grid":
        exp = [(float(a), float(b)) for a, b, _, _ in ref]
        if got != exp:
            ctx.fail(
                f"segment_clip([{start},{end}], duration={dur}, hop={hop}, include_incomplete={inc}) yields {len(got)} segments {got[:3]}..{got[-2:]}, "
                f"the hop lattice gives {len(exp)}: {exp[:3]}..{exp[-2:]}",
                spec, got, exp, kind="lattice",
            )
    else:
        tol = 16 * math.ulp(max(abs(end), abs(start) + abs(dur), 1e-300))
        # decisive prefix: windows whose decision margin exceeds the tolerance
        decisive = []
        border = 0
        for a, b, margin, complete in ref:
            inside_margin = Fr(end) - a
            if margin > tol and inside_margin > tol or (not complete and inside_margin > tol and margin > tol):
                decisive.append((float(a), float(b)))
            else:
                border += 1
        # one more borderline window may exist just beyond the reference list
        if len(got) < len(decisive) - 0 or len(got) > len(ref) + 1:
            ctx.fail(f"segment count {len(got)} outside [{len(decisive)}, {len(ref) + 1}] for clip [{start},{end}] duration={dur} hop={hop} incomplete={inc}", spec, got[-3:], [list(map(float, r[:2])) for r in ref[-3:]], kind="lattice")
        for (gs, ge), (a, b, _, _) in zip(got, ref):
            if abs(gs - float(a)) > tol or abs(ge - float(b)) > tol:
                ctx.fail(f"segment [{gs},{ge}] is off the hop lattice (expected [{float(a)},{float(b)}])", spec, [gs, ge], [float(a), float(b)], kind="lattice")
        ctx.label("borderline_windows" if border else "all_decisive")
    # exact duration for complete windows, coverage when hop <= duration and incomplete windows are included
    if spec["cls"] == "grid":
        for (gs, ge), (_, _, _, complete) in zip(got, ref):
            if complete and ge - gs != dur:
                ctx.fail(f"complete window [{gs},{ge}] does not last exactly {dur}", spec, ge - gs, dur, kind="duration")
        if inc and eff_hop <= dur and spec["length"] > 0:
            covered = start
            for gs, ge in got:
                if gs > covered:
                    ctx.fail(f"gap in coverage before {gs} (covered up to {covered})", spec, got, None, kind="coverage")
                covered = max(covered, ge)
            if covered != end:
                ctx.fail(f"segments cover the clip only up to {covered}, clip ends at {end}", spec, covered, end, kind="coverage")
    # a clip derived from one that was already segmented (copy with a later end, attribute assignment) is tiled by ITS bounds
    if spec["cls"] == "grid":
        extra = eff_hop * 3 + dur
        longer_end = end + extra
        derived = {"model_copy(update=end_time)": clip.model_copy(update={"end_time": longer_end})}
        assigned = clip.model_copy()
        assigned.end_time = longer_end
        derived["end_time assigned"] = assigned
        ref2 = [(float(a), float(b)) for a, b, _, _ in reference(start, longer_end, dur, eff_hop, inc)]
        for how, c2 in derived.items():
            got2 = [(x.start_time, x.end_time) for x in segment_clip(c2, **kw)]
            if got2 != ref2:
                ctx.fail(f"{how}: a clip lengthened from [{start},{end}] to [{start},{longer_end}] yields {len(got2)} segments, its own lattice has {len(ref2)}", spec, got2[-3:], ref2[-3:], kind="stale_clip")
        if [(x.start_time, x.end_time) for x in segment_clip(clip, **kw)] != got:
            ctx.fail("segmenting the original clip again gives a different answer after deriving copies", spec, None, None, kind="not_repeatable")
    # the same call written positionally (documented order: clip, duration, hop, include_incomplete) and with numpy scalars
    alts = {"numpy scalars": lambda: segment_clip(clip, **{k: (np.float64(v) if isinstance(v, float) else v) for k, v in kw.items()})}
    if hop is not None:
        alts["positional"] = lambda: segment_clip(clip, dur, hop, inc)
    else:
        alts["positional duration"] = lambda: segment_clip(clip, dur, include_incomplete=inc)
    for how, call in alts.items():
        other = [(x.start_time, x.end_time, x.uuid) for x in call()]
        if other != [(x.start_time, x.end_time, x.uuid) for x in segs]:
            ctx.fail(f"segment_clip written with {how} gives other segments than the keyword call", spec, other[:3], got[:3], kind="call_style")
    # two segmentations alive at the same time (segment_clip is lazy): consumed in lock step, and run from two threads with this
    # one suspended at lines inside the library, they give what they give one after the other
    if len(segs) <= 64:
        import itertools as _it

        clip_b = clip.model_copy(update={"start_time": start + dur / 4, "end_time": end + 2 * dur})
        kw_b = dict(kw, duration=dur * 1.5)
        key = lambda xs: [(x.start_time, x.end_time, x.uuid) for x in xs if x is not None]  # noqa: E731
        seq_a, seq_b = key(segs), key(segment_clip(clip_b, **kw_b))
        pairs_ = list(_it.zip_longest(segment_clip(clip, **kw), segment_clip(clip_b, **kw_b)))
        if key(a for a, _ in pairs_) != seq_a or key(b for _, b in pairs_) != seq_b:
            ctx.fail("two segment_clip results consumed in lock step differ from the same calls made one after the other", spec, [key(a for a, _ in pairs_)[:3], key(b for _, b in pairs_)[:3]], [seq_a[:3], seq_b[:3]], kind="interleaved")
        ctx.interleave(spec, "segment_clip", lambda: key(segment_clip(clip, **kw)), lambda: key(segment_clip(clip_b, **kw_b)), every=4, max_pauses=24)
    # the caller's ambient decimal context (an application that formats money with three significant digits, or rounds down) is not an
    # input of the segmentation
    import decimal as _decimal

    with _decimal.localcontext() as _dc:
        _dc.prec = 3
        _dc.rounding = _decimal.ROUND_DOWN
        low = [(x.start_time, x.end_time, x.uuid) for x in segment_clip(clip, **kw)]
    if low != [(x.start_time, x.end_time, x.uuid) for x in segs]:
        ctx.fail(f"segment_clip under a decimal context of precision 3 yields {len(low)} segments, under the default context {len(segs)}", spec, low[-2:], got[-2:], kind="ambient_decimal_context")
    # include_incomplete defaults to False
    if not inc:
        kw_d = {k: v for k, v in kw.items() if k != "include_incomplete"}
        if [(x.start_time, x.end_time) for x in segment_clip(clip, **kw_d)] != got:
            ctx.fail("omitting include_incomplete differs from include_incomplete=False", spec, None, None, kind="defaults")
    # identifiers
    ids = [s.uuid for s in segs]
    if len(set(ids)) != len(ids):
        ctx.fail("two segments of one call share an identifier", spec, [str(i) for i in ids], None, kind="uuid_distinct")
    again = [s.uuid for s in segment_clip(clip, **kw)]
    if again != ids:
        ctx.fail("segment identifiers differ between two identical calls", spec, None, None, kind="uuid_deterministic")
    if spec["cls"] == "grid" and segs:
        # the same bounds reached through other parameters (a truncated last window vs a complete window of that length)
        last = segs[-1]
        d2 = last.end_time - last.start_time
        if d2 > 0:
            twin = [x for x in segment_clip(clip, duration=d2, hop=eff_hop, include_incomplete=False) if (x.start_time, x.end_time) == (last.start_time, last.end_time)]
            if twin and twin[0].uuid != last.uuid:
                ctx.fail(f"segment ({last.start_time}, {last.end_time}) of the same parent gets different identifiers from two calls (duration {dur} vs {d2}): the identifier is not a function of parent and bounds", spec, str(twin[0].uuid), str(last.uuid), kind="uuid_function_of_bounds")
    if segs:
        other = data.Clip(uuid=str(uuidlib.UUID(int=spec["salt"] + 2**40)), recording=rec, start_time=clip.start_time, end_time=clip.end_time)
        oids = [s.uuid for s in segment_clip(other, **kw)]
        if set(oids) & set(ids):
            ctx.fail("segments of a different parent clip share identifiers", spec, None, None, kind="uuid_parent")
        if clip.uuid in ids:
            ctx.fail("a segment reuses the parent's identifier", spec, None, None, kind="uuid_parent")


@st.composite
def many_case(draw):
    """Very many windows (a long recording cut into short frames): more than 2^16 and 2^17 lattice positions, dyadic values."""
    n = draw(st.sampled_from([65535, 65536, 65537, 65600, 70001, 131073]))
    hop = draw(st.sampled_from([0.125, 0.25, 1.0]))
    dur = hop * draw(st.sampled_from([1.0, 2.0, 0.5]))
    tail = draw(st.sampled_from([0.0, 0.5])) * hop
    return {"start": draw(st.sampled_from([0.0, 16.0])), "length": n * hop + tail, "duration": dur, "hop": hop, "incomplete": draw(st.booleans()), "salt": draw(st.integers(1, 1000))}


def check_many(spec, ctx):
    from soundevent.operations import segment_clip

    if spec["length"] / spec["hop"] > 140000 or spec["hop"] <= 0 or spec["duration"] <= 0:
        raise ValueError("malformed spec")
    clip, rec, end = _clip(spec)
    s, d, h = spec["start"], spec["duration"], spec["hop"]
    # closed form on the dyadic grid: window i starts at s + i*h; complete while s + i*h + d <= end
    n_start = math.ceil((end - s) / h)
    n_full = max(0, math.floor((end - s - d) / h) + 1) if end - s >= d else 0
    want = n_start if spec["incomplete"] else n_full
    ctx.case(spec, nontrivial=want > 65536, labels=[f"n>{2**16}" if want > 2**16 else "n<=65536", "incomplete" if spec["incomplete"] else "complete_only"], out={"n": want})
    segs = ctx.call(spec, "segment_clip (many windows)", lambda: list(segment_clip(clip, duration=d, hop=h, include_incomplete=spec["incomplete"])))
    if len(segs) != want:
        ctx.fail(f"{len(segs)} segments, the hop lattice has {want} windows ({'starting inside' if spec['incomplete'] else 'fitting completely into'} the clip [{s}, {end}], duration {d}, hop {h})", spec, len(segs), want, kind="count")
        return
    for i in (0, 1, len(segs) // 2, 65535, 65536, len(segs) - 2, len(segs) - 1):
        if 0 <= i < len(segs):
            es, ee = s + i * h, min(s + i * h + d, end)
            if segs[i].start_time != es or segs[i].end_time != ee:
                ctx.fail(f"segment {i} is [{segs[i].start_time}, {segs[i].end_time}], the lattice window is [{es}, {ee}]", spec, [segs[i].start_time, segs[i].end_time], [es, ee], kind="bounds")
    if len({x.uuid for x in segs}) != len(segs):
        ctx.fail("segment identifiers are not distinct within one call", spec, None, None, kind="uuid")
    import decimal as _decimal

    with _decimal.localcontext() as _dc:
        _dc.prec = 3
        n_low = sum(1 for _ in segment_clip(clip, duration=d, hop=h, include_incomplete=spec["incomplete"]))
    if n_low != len(segs):
        ctx.fail(f"segment_clip under a decimal context of precision 3 yields {n_low} segments, under the default context {len(segs)}", spec, n_low, len(segs), kind="ambient_decimal_context")


@st.composite
def ids_case(draw):
    g = 0.25
    return {"start": draw(st.sampled_from([0.0, 1.5, 3600.0])), "length": draw(st.integers(4, 40)) * g, "duration": draw(st.integers(1, 8)) * g, "hop": draw(st.integers(1, 8)) * g,
            "incomplete": draw(st.booleans()), "salt": draw(st.integers(1, 2**30)), "other_hashseed": draw(st.sampled_from([0, 7, 4242]))}


_CHILD = """
import sys, json, uuid
sys.path[:0] = json.loads(sys.argv[1])
from soundevent import data
from soundevent.operations import segment_clip
s = json.loads(sys.argv[2])
rec = data.Recording(uuid=str(uuid.UUID(int=7)), path="r.wav", duration=1e6, channels=1, samplerate=8000)
clip = data.Clip(uuid=str(uuid.UUID(int=s["salt"])), recording=rec, start_time=s["start"], end_time=s["start"] + s["length"])
print(json.dumps([[x.start_time, x.end_time, str(x.uuid)] for x in segment_clip(clip, duration=s["duration"], hop=s["hop"], include_incomplete=s["incomplete"])]))
"""


def check_ids(spec, ctx):
    """Identifiers are a function of the parent identifier and the bounds - in every process: another interpreter (with another
    string-hash seed) must produce the very same identifiers for the same clip and settings."""
    import json
    import os
    import subprocess
    import sys

    from soundevent.operations import segment_clip

    clip, rec, end = _clip(spec)
    here = [[x.start_time, x.end_time, str(x.uuid)] for x in segment_clip(clip, duration=spec["duration"], hop=spec["hop"], include_incomplete=spec["incomplete"])]
    ctx.case(spec, nontrivial=len(here) >= 2, labels=[f"hashseed={spec['other_hashseed']}"], out={"n": len(here)})
    env = dict(os.environ, PYTHONHASHSEED=str(spec["other_hashseed"]))
    r = subprocess.run([sys.executable, "-W", "ignore", "-c", _CHILD, json.dumps([p for p in sys.path if p]), json.dumps(spec)], env=env, capture_output=True, text=True)
    if r.returncode != 0:
        raise RuntimeError("child interpreter failed: " + r.stderr[-400:])
    there = json.loads(r.stdout.strip().splitlines()[-1])
    if there != here:
        diff = next((a, b) for a, b in zip(here, there) if a != b) if len(here) == len(there) else (len(here), len(there))
        ctx.fail(f"the same segmentation in another interpreter process (PYTHONHASHSEED={spec['other_hashseed']}) gives other segments / identifiers: {diff}", spec, there[:3], here[:3], kind="uuid_across_processes")


@st.composite
def bad_case(draw):
    which = draw(st.sampled_from(["dur0", "dur_neg", "hop0", "hop_neg"]))
    v = {"dur0": draw(st.sampled_from([0.0, -0.0, 0])), "dur_neg": -draw(st.sampled_from([5e-324, 1.0, 1e-9])), "hop0": draw(st.sampled_from([0.0, -0.0, 0])), "hop_neg": -draw(st.sampled_from([5e-324, 1.0, 1e-9]))}[which]
    return {"start": 0.0, "length": draw(st.sampled_from([0.0, 1.0, 10.0])), "which": which, "v": v, "incomplete": draw(st.booleans()), "salt": 5}


def check_bad(spec, ctx):
    from soundevent.operations import segment_clip

    clip, _, _ = _clip(spec)
    kw = {"duration": 1.0, "hop": 0.5, "include_incomplete": spec["incomplete"]}
    if spec["which"].startswith("dur"):
        kw["duration"] = spec["v"]
    else:
        kw["hop"] = spec["v"]
    ctx.case(spec, nontrivial=True, labels=[spec["which"]])
    try:
        out = list(segment_clip(clip, **kw))
    except ValueError:
        return
    except Exception as e:  # noqa: BLE001
        ctx.fail(f"non-positive {spec['which']} raised {type(e).__name__}, not ValueError", spec, repr(e), "ValueError", kind="wrong_exception")
        return
    ctx.fail(f"segment_clip accepted {spec['which']}={spec['v']} and yielded {len(out)} segments", spec, len(out), "ValueError", kind="false_accept")


SUBS = [
    Sub("lattice_grid", check, strategy=grid_case, quick=12000, thorough=400000, min_nontrivial=0.3),
    Sub("lattice_free", check, strategy=free_case, quick=6000, thorough=200000, min_nontrivial=0.3),
    Sub("many_segments", check_many, strategy=many_case, quick=24, thorough=200, min_nontrivial=0.2),
    Sub("ids_across_processes", check_ids, strategy=ids_case, quick=12, thorough=60),
    Sub("rejects_nonpositive", check_bad, strategy=bad_case, quick=400, thorough=4000),
]
