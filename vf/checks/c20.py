"""C20 - rasterisation marks exactly the bins a geometry covers, on the template's axes."""

from __future__ import annotations

import math

import numpy as np
from hypothesis import strategies as st

from vf.core import Sub

PROP = "C20"
TECHNIQUE = "property-based testing: reference rasteriser (cell-centre test in bin-index space with an independent linear-scan bin lookup) over generated templates, geometry lists, values, dtypes and both dimension orders; metamorphic laws (template contents, all_touched superset)"
LEVEL_TEXT = (
    "rasterize is run on generated templates (1-12 x 1-12 bins, square and non-square, both dimension orders, arbitrary contents incl. NaN) "
    "and lists of 0-4 geometries whose vertices lie on bin edges, inside bins and outside the axes; for area geometries whose image in index "
    "space is a valid polygon every cell is compared with a cell-centre reference (cells within 1e-9 of the mapped boundary are borderline), "
    "with overwrite order, fill, dtype, coordinates, independence of the template contents, all_touched superset and the value-length rule. Exploration."
)
LEVEL_NOTE = "reference lookup: last coordinate <= value, 0 below the axis, n above it; a value inside the last bin (between the last coordinate and last+step) is not asserted on that bin (the documented range of get_coord_index ends at the last coordinate)"
RULE = (
    "Hypothesis: time axis t0 + i*dt (n_t in 1..12), frequency axis f0 + j*df (n_f in 1..12), dims order drawn, contents drawn (zeros / ramp / NaN); "
    "0-4 geometries from {BoundingBox, TimeInterval, Polygon (rect, triangle, L, diamond), MultiPolygon, LineString, Point, TimeStamp, MultiPoint} with vertices "
    "at quarter-bin positions from 2 bins before to 2 bins after each axis; a quarter of the lists repeat their first geometry later on; values scalar / list / wrong-length list, fill, dtype in {float32, float64, int32, uint8, int16, uint16, uint32, int64} with values and fill exactly representable in it (0-9 or a per-dtype palette such as 0.1, 2^24+1, 2^32-1), "
    "all_touched on/off. Non-trivial = non-square template, or >= 2 geometries with different values whose bounding bins overlap."
)
ASSUMPTIONS = [
    "2-D templates with dims named time and frequency",
    "exact per-cell oracle only when every geometry is an area type whose image in bin-index space is a valid polygon; otherwise cells are only required to be in {fill} U values and the superset law is checked",
]

DTYPES = ["float32", "float64", "int32", "uint8", "int16", "uint16", "uint32", "int64"]
# values / fills exactly representable in the requested dtype (so the result must hold them exactly), including ones that a narrower
# intermediate buffer (float32, int32) cannot hold
PALETTE = {
    "float32": [0.5, 2.25, 16777216, 255],
    "float64": [0.1, 0.3, 16777217, 1e-50, 255],
    "int32": [16777217, -16777217, 2147483647, -5, 255],
    "uint8": [200, 255, 128],
    "int16": [-32768, 32767, -3, 255],
    "uint16": [65535, 40000, 255],
    "uint32": [4294967295, 16777217, 255],
    "int64": [1099511627776, -16777217, 255],
}
LINE_TYPES = ("LineString", "MultiLineString", "Point", "MultiPoint", "TimeStamp")


def f20(spec, kind, message):
    """Open-finding classifier F20: all_touched superset law with a 0-/1-dimensional geometry in the list."""
    return kind == "all_touched" and any(g["type"] in LINE_TYPES for g in spec["geoms"])


KNOWN = {"F20-all-touched-lines": f20}


@st.composite
def case(draw):
    nt = draw(st.integers(1, 12))
    nf = draw(st.integers(1, 12)) if draw(st.integers(0, 3)) else nt
    # templates may start below zero (a two-sided spectrum, a time axis centred on a trigger): geometries cannot, the axes can
    t0 = draw(st.sampled_from([0.0, 0.5, 3.0, 0.0, 0.5, 3.0, -1.0]))
    dt = draw(st.sampled_from([0.25, 0.5, 1.0, 2.5]))
    f0 = draw(st.sampled_from([0.0, 100.0, 1000.0, 0.0, 100.0, 1000.0, -250.0, -2000.0]))
    df = draw(st.sampled_from([50.0, 125.0, 1000.0]))
    order = draw(st.sampled_from(["ft", "tf"]))
    contents = draw(st.sampled_from(["zeros", "ramp", "nan"]))

    def tq(lo=-8):
        return draw(st.integers(lo, 4 * nt + 8)) / 4

    def fq(lo=-8):
        return draw(st.integers(lo, 4 * nf + 8)) / 4

    def T(u):
        return max(0.0, t0 + u * dt)

    def F(v):
        return min(max(0.0, f0 + v * df), 5_000_000.0)

    geoms = []
    for _ in range(draw(st.integers(0, 4))):
        kind = draw(st.sampled_from(["BoundingBox", "BoundingBox", "TimeInterval", "Polygon", "Polygon", "MultiPolygon", "LineString", "Point", "TimeStamp", "MultiPoint"]))
        if kind == "BoundingBox":
            a, b = sorted([tq(), tq()])
            c, d = sorted([fq(), fq()])
            g = {"type": kind, "coordinates": [T(a), F(c), T(b), F(d)]}
        elif kind == "TimeInterval":
            a, b = sorted([tq(), tq()])
            g = {"type": kind, "coordinates": [T(a), T(b)]}
        elif kind in ("Polygon", "MultiPolygon"):
            def poly():
                a, b = sorted([tq(), tq()])
                c, d = sorted([fq(), fq()])
                if a == b:
                    b = a + 1
                if c == d:
                    d = c + 1
                um, vm = (a + b) / 2, (c + d) / 2
                shape = draw(st.sampled_from(["rect", "tri", "L", "diamond", "bowtie"]))
                if shape == "rect":
                    r = [[a, c], [b, c], [b, d], [a, d]]
                elif shape == "tri":
                    r = [[a, c], [b, c], [a, d]]
                elif shape == "L":
                    r = [[a, c], [b, c], [b, vm], [um, vm], [um, d], [a, d]]
                elif shape == "bowtie":
                    r = [[a, c], [b, d], [b, c], [a, d]]  # a self-crossing outline: both lobes belong to the geometry
                else:
                    r = [[um, c], [b, vm], [um, d], [a, vm]]
                return [[[T(u), F(v)] for u, v in r]]
            if kind == "Polygon":
                g = {"type": kind, "coordinates": poly()}
            else:
                g = {"type": kind, "coordinates": [poly() for _ in range(draw(st.integers(1, 2)))]}
        elif kind == "LineString":
            g = {"type": kind, "coordinates": sorted([[T(tq()), F(fq())] for _ in range(draw(st.integers(2, 4)))])}
        elif kind == "Point":
            g = {"type": kind, "coordinates": [T(tq()), F(fq())]}
        elif kind == "TimeStamp":
            g = {"type": kind, "coordinates": T(tq())}
        else:
            g = {"type": kind, "coordinates": [[T(tq()), F(fq())] for _ in range(draw(st.integers(1, 3)))]}
        geoms.append(g)
    if len(geoms) >= 2 and draw(st.integers(0, 3)) == 0:
        # an earlier geometry listed again after others (an annotation revisited): the LAST occurrence decides the overlap cells
        geoms.insert(draw(st.integers(2, len(geoms))), {"type": geoms[0]["type"], "coordinates": geoms[0]["coordinates"]})
    vmode = draw(st.sampled_from(["scalar", "list", "list", "default", "wrong_len"]))
    dtype = draw(st.sampled_from(DTYPES + ["float32", "float64", "int32", "uint8"]))
    val = st.one_of(st.integers(0, 9), st.integers(0, 9), st.sampled_from(PALETTE[dtype]))
    vals = None
    if vmode == "scalar":
        vals = draw(val)
    elif vmode == "list":
        vals = [draw(val) for _ in geoms]
    elif vmode == "wrong_len":
        vals = [draw(st.integers(1, 9)) for _ in range(len(geoms) + draw(st.sampled_from([1, 2])))]
        if len(geoms) > 0 and draw(st.booleans()):
            vals = vals[: len(geoms) - 1]
    fill = draw(st.sampled_from([0, 0, 0, 3, 10] + PALETTE[dtype]))
    return {
        "nt": nt, "nf": nf, "t0": t0, "dt": dt, "f0": f0, "df": df, "order": order, "contents": contents,
        "geoms": geoms, "vmode": vmode, "values": vals, "fill": fill, "dtype": dtype,
        "all_touched": draw(st.booleans()), "tuple_values": draw(st.booleans()), "f_spacing": draw(st.sampled_from(["even", "even", "uneven"])),
    }


def ref_index(coords, v, variant):
    n = len(coords)
    if v < coords[0]:
        return 0
    if v > coords[-1]:
        if variant == "b" and n >= 1 and v < coords[-1] + (coords[1] - coords[0] if n > 1 else float("inf")):
            return n - 1  # the value lies inside the last bin: "bin containing the end" reading
        return n
    i = 0
    for k in range(n):
        if coords[k] <= v:
            i = k
    return i


def template(spec, contents):
    import xarray as xr

    nt, nf = spec["nt"], spec["nf"]
    tc = np.array([spec["t0"] + i * spec["dt"] for i in range(nt)])
    fc = np.array([spec["f0"] + j * spec["df"] for j in range(nf)])
    if spec.get("f_spacing") == "uneven":
        # bins that are not evenly spaced (octave bands, custom band edges): the raster follows the template's coordinates
        fc = np.array([spec["f0"] + spec["df"] * (j + 0.5 * (j % 3) + 0.25 * j * j) for j in range(nf)])
    if contents == "zeros":
        data = np.zeros((nt, nf))
    elif contents == "ramp":
        data = np.arange(nt * nf, dtype=float).reshape(nt, nf) + 1
    else:
        data = np.full((nt, nf), np.nan)
    arr = xr.DataArray(data, dims=("time", "frequency"), coords={"time": tc, "frequency": fc})
    if spec["order"] == "ft":
        arr = arr.transpose("frequency", "time")
    return arr, tc, fc


AREA = ("BoundingBox", "TimeInterval", "Polygon", "MultiPolygon")


def mapped_polys(g, tc, fc, variant):
    """Image of an area geometry in bin-index space as a list of shapely polygons (or None if not decidable)."""
    from shapely import geometry as sg

    def P(t, f):
        return (ref_index(tc, t, variant), ref_index(fc, f, variant))

    k, c = g["type"], g["coordinates"]
    if k == "BoundingBox":
        x0, y0 = P(c[0], c[1])
        x1, y1 = P(c[2], c[3])
        return [sg.box(x0, y0, x1, y1)]
    if k == "TimeInterval":
        x0, y0 = P(c[0], 0.0)
        x1, y1 = P(c[1], 5_000_000.0)
        return [sg.box(x0, y0, x1, y1)]
    polys = [c] if k == "Polygon" else c
    out = []
    for p in polys:
        ring = [P(t, f) for t, f in p[0]]
        if len(set(ring)) < 3:
            out.append(sg.Polygon())
            continue
        poly = sg.Polygon(ring)
        if not poly.is_valid:
            # self-intersecting image (a bow-tie outline, or one made so by the snapping): judged by crossing / winding numbers
            out.append(_RingRegion(ring))
            continue
        out.append(poly)
    return out


class _RingRegion:
    """A possibly self-intersecting ring.  A point is inside when the even-odd rule and the non-zero winding rule agree that it is
    (both lobes of a figure-eight); where the two rules disagree (doubly wound loops) the point is left undecided."""

    is_empty = False
    area = 1.0

    def __init__(self, ring):
        self.ring = [tuple(map(float, q)) for q in ring]
        if self.ring[0] != self.ring[-1]:
            self.ring.append(self.ring[0])

    def classify(self, x, y):
        """'in', 'out', 'border' or 'undecided' for the point (x, y)"""
        wn, crossings, dmin = 0, 0, float("inf")
        for (x0, y0), (x1, y1) in zip(self.ring, self.ring[1:]):
            dx, dy = x1 - x0, y1 - y0
            L2 = dx * dx + dy * dy
            t = 0.0 if L2 == 0 else max(0.0, min(1.0, ((x - x0) * dx + (y - y0) * dy) / L2))
            dmin = min(dmin, math.hypot(x - (x0 + t * dx), y - (y0 + t * dy)))
            if (y0 <= y) != (y1 <= y):
                xi = x0 + (y - y0) * dx / dy
                if xi > x:
                    crossings += 1
                    wn += 1 if y1 > y0 else -1
        if dmin < 1e-9:
            return "border"
        eo, nz = crossings % 2 == 1, wn != 0
        return "undecided" if eo != nz else ("in" if eo else "out")


def reference_raster(geom_specs, per_geom, tc, fc, fill):
    """(expected, decided) by the cell-centre rule in bin-index space, or None when some geometry is not an area type with a
    valid image (then only the weak oracles apply)."""
    import shapely

    if not all(g["type"] in AREA for g in geom_specs):
        return None
    nt, nf = len(tc), len(fc)
    exp = {}
    for variant in ("a", "b"):
        e = np.full((nt, nf), float(fill))
        border = np.zeros((nt, nf), dtype=bool)
        for g, v in zip(geom_specs, per_geom):
            polys = mapped_polys(g, tc, fc, variant)
            if polys is None:
                return None
            for poly in polys:
                if poly.is_empty or poly.area == 0:
                    continue
                for i in range(nt):
                    for j in range(nf):
                        if isinstance(poly, _RingRegion):
                            cl = poly.classify(i + 0.5, j + 0.5)
                            if cl in ("border", "undecided"):
                                border[i, j] = True
                            elif cl == "in":
                                e[i, j] = v
                                border[i, j] = False
                            continue
                        c = shapely.Point(i + 0.5, j + 0.5)
                        if poly.boundary.distance(c) < 1e-9:
                            border[i, j] = True
                        elif poly.contains(c):
                            e[i, j] = v
                            border[i, j] = False
        exp[variant] = (e, border)
    ea, ba = exp["a"]
    eb, bb = exp["b"]
    return ea, (~ba) & (~bb) & (ea == eb)


def check(spec, ctx):
    import shapely
    from soundevent import data
    from soundevent.geometry import rasterize

    if spec["nt"] < 1 or spec["nf"] < 1 or spec["order"] not in ("ft", "tf") or spec["dt"] <= 0 or spec["df"] <= 0 or spec["dtype"] not in DTYPES:
        raise ValueError("malformed spec")
    geoms = [data.geometry_validate(g, mode="dict") for g in spec["geoms"]]
    arr, tc, fc = template(spec, spec["contents"])
    nt, nf = spec["nt"], spec["nf"]
    kw = dict(fill=spec["fill"], dtype=np.dtype(spec["dtype"]), all_touched=spec["all_touched"])
    vals = spec["values"]
    if vals is not None:
        kw["values"] = tuple(vals) if (spec["tuple_values"] and isinstance(vals, list)) else vals
    nvals = None if not isinstance(vals, list) else len(vals)
    per_geom = [1] * len(geoms) if vals is None else ([vals] * len(geoms) if not isinstance(vals, list) else vals)
    distinct_vals = len(set(per_geom[: len(geoms)])) > 1
    nontrivial = nt != nf or (len(geoms) >= 2 and distinct_vals)
    labels = [f"order={spec['order']}", "square" if nt == nf else "nonsquare", f"ngeom={len(geoms)}", f"vmode={spec['vmode']}", f"dtype={spec['dtype']}"]

    if nvals is not None and nvals != len(geoms):
        ctx.case(spec, nontrivial=True, labels=labels + ["wrong_len"])
        try:
            r = rasterize(geoms, arr, **kw)
        except ValueError:
            return
        except Exception as e:
            ctx.fail(f"value list of wrong length raised {type(e).__name__}, not ValueError", spec, repr(e)[:200], "ValueError", kind="wrong_exception")
            return
        ctx.fail(f"rasterize accepted {nvals} values for {len(geoms)} geometries", spec, None, "ValueError", kind="false_accept")
        return

    from vf.core import snapshot

    before = snapshot((arr, geoms, kw.get("values")))
    res = ctx.call(spec, f"rasterize({len(geoms)} geometries, template {spec['order']} {nt}x{nf})", rasterize, geoms, arr, **kw)
    ctx.unchanged(spec, "rasterize: template / geometries / values", before, (arr, geoms, kw.get("values")))
    ctx.case(spec, nontrivial=nontrivial, labels=labels, out={"shape": list(res.shape), "dims": list(res.dims)})

    if set(res.dims) != {"time", "frequency"}:
        ctx.fail(f"result dims {res.dims}", spec, list(res.dims), ["time", "frequency"], kind="dims")
    if not (np.array_equal(res.coords["time"].values, tc) and np.array_equal(res.coords["frequency"].values, fc)):
        ctx.fail("result coordinates differ from the template's", spec, [res.coords["time"].values.tolist(), res.coords["frequency"].values.tolist()], [tc.tolist(), fc.tolist()], kind="coords")
    if res.dtype != np.dtype(spec["dtype"]):
        ctx.fail(f"result dtype {res.dtype}, requested {spec['dtype']}", spec, str(res.dtype), spec["dtype"], kind="dtype")
    got = res.transpose("time", "frequency").values
    if got.shape != (nt, nf):
        ctx.fail(f"result shape {got.shape}, template is {nt}x{nf}", spec, list(got.shape), [nt, nf], kind="shape")

    fill = spec["fill"]
    allowed = {fill} | set(per_geom)
    if not set(np.unique(got).tolist()) <= {float(a) for a in allowed} | set(allowed):
        ctx.fail(f"cells hold values outside fill/values: {np.unique(got).tolist()}", spec, np.unique(got).tolist(), sorted(allowed), kind="foreign_value")
    if not geoms and not np.all(got == fill):
        ctx.fail("no geometries but some cells differ from fill", spec, got.tolist(), fill, kind="fill")

    # two threads rasterising: this call is suspended at lines inside the library while the other thread burns the same geometries in
    # reverse order (another overwrite order) with all_touched flipped
    if geoms:
        kw_other = dict(kw, all_touched=not spec["all_touched"])
        ras = lambda gs, k: rasterize(gs, arr, **k).transpose("time", "frequency").values.tolist()  # noqa: E731
        ctx.interleave(spec, "rasterize", lambda: ras(geoms, kw), lambda: ras(geoms[::-1], {k: (v[::-1] if isinstance(v, (list, tuple)) else v) for k, v in kw_other.items()}), every=5, max_pauses=32)

    # geometries and template after a pickle round trip (worker processes, caches) give the same raster
    import pickle

    res_pk = rasterize(pickle.loads(pickle.dumps(geoms)), pickle.loads(pickle.dumps(arr)), **kw).transpose("time", "frequency").values
    if not np.array_equal(res_pk, got):
        ctx.fail("rasterize on unpickled geometries / template differs from the call on the originals", spec, None, None, kind="pickle")
    # the same call written positionally (documented order: geometries, array, values, fill, dtype) and with a tuple of geometries
    pos_args = [kw["values"] if "values" in kw else 1, kw["fill"], kw["dtype"]]
    res_p = rasterize(geoms, arr, *pos_args, all_touched=spec["all_touched"]).transpose("time", "frequency").values
    res_t = rasterize(tuple(geoms), arr, **kw).transpose("time", "frequency").values
    if not np.array_equal(res_p, got) or not np.array_equal(res_t, got):
        ctx.fail("rasterize written positionally / with a tuple of geometries differs from the keyword call on a list", spec, None, None, kind="call_style")
    # omitted arguments mean the documented defaults: values=1, fill=0, dtype=float32, all_touched=False
    if geoms:
        d_out = rasterize(geoms, arr)
        e_out = rasterize(geoms, arr, values=1, fill=0, dtype=np.float32, all_touched=False)
        if d_out.dtype != np.float32 or not np.array_equal(d_out.transpose("time", "frequency").values, e_out.transpose("time", "frequency").values):
            ctx.fail("rasterize with omitted arguments differs from values=1, fill=0, dtype=float32, all_touched=False", spec, None, None, kind="defaults")
    # independent of the template contents
    other = "ramp" if spec["contents"] != "ramp" else "nan"
    arr2, _, _ = template(spec, other)
    res2 = rasterize(geoms, arr2, **kw).transpose("time", "frequency").values
    if not np.array_equal(res2, got):
        ctx.fail("result depends on the template contents", spec, None, None, kind="contents")

    # the same axes reached by decimating a finer template built with the library's own range helpers: xarray keeps the
    # coordinate attributes (the 'step' of the fine axis is now stale) - the template's COORDINATES are what counts
    try:
        import xarray as xr
        from soundevent import arrays

        tdim = arrays.create_time_range(start_time=spec["t0"], end_time=spec["t0"] + nt * spec["dt"], step=spec["dt"] / 2)
        fdim = arrays.create_frequency_range(low_freq=spec["f0"], high_freq=spec["f0"] + nf * spec["df"], step=spec["df"] / 2)
        fine = xr.DataArray(np.zeros((tdim.size, fdim.size)), dims=("time", "frequency"), coords={"time": tdim, "frequency": fdim})
        dec = fine.isel(time=slice(None, None, 2), frequency=slice(None, None, 2))
    except Exception:
        dec = None
    if dec is not None and spec.get("f_spacing", "even") == "even" and np.array_equal(dec.coords["time"].values, tc) and np.array_equal(dec.coords["frequency"].values, fc):
        ctx.label("decimated_template")
        if spec["order"] == "ft":
            dec = dec.transpose("frequency", "time")
        res_d = rasterize(geoms, dec, **kw).transpose("time", "frequency").values
        if not np.array_equal(res_d, got):
            ctx.fail("a template with the same coordinates obtained by decimating a finer one (stale 'step' attribute) is rasterised differently", spec, res_d.tolist(), got.tolist(), kind="stale_step_attr")

    # all_touched only ever adds cells
    kw_f = dict(kw, all_touched=False)
    kw_t = dict(kw, all_touched=True)
    r_f = rasterize(geoms, arr, **kw_f).transpose("time", "frequency").values
    r_t = rasterize(geoms, arr, **kw_t).transpose("time", "frequency").values
    if fill not in set(per_geom):
        if np.any((r_f != fill) & (r_t == fill)):
            ctx.fail("all_touched=True lost cells that all_touched=False marks", spec, None, None, kind="all_touched")

    # exact oracle (cell-centre rule) for area geometries with a valid image in index space
    ref = reference_raster(spec["geoms"], per_geom, tc, fc, fill)
    if ref is not None:
        ea, decided = ref
        ctx.label("exact_oracle")
        bad = decided & (r_f != ea)
        if np.any(bad):
            i, j = np.argwhere(bad)[0]
            ctx.fail(
                f"cell (time bin {i}, frequency bin {j}) holds {r_f[i, j]}, the cell-centre rule gives {ea[i, j]} (all_touched=False)",
                spec, r_f.tolist(), ea.tolist(), kind="cells",
            )
        if not spec["all_touched"]:
            bad2 = decided & (got != ea)
            if np.any(bad2):
                ctx.fail("requested call differs from the all_touched=False call", spec, got.tolist(), ea.tolist(), kind="cells")
        # a window cut out of the template that was just used is rasterised on ITS axes
        if nt >= 3:
            lo, hi = 1, nt - (1 if nt >= 4 else 0)
            win = arr.isel(time=slice(lo, hi))
            wt = tc[lo:hi]
            ref_w = reference_raster(spec["geoms"], per_geom, wt, fc, fill)
            if ref_w is not None:
                rw = rasterize(geoms, win, **kw_f).transpose("time", "frequency").values
                ew, dw = ref_w
                if rw.shape != ew.shape or np.any(dw & (rw != ew)):
                    ctx.fail(f"window time[{lo}:{hi}] of a template that was already rasterised: cells differ from the cell-centre rule on the window's own axes", spec, rw.tolist(), ew.tolist(), kind="stale_template")

    # geometries derived from the ones that were just rasterised (copies with other coordinates, the same objects after their
    # coordinates were re-assigned) are rasterised by their CURRENT coordinates, like freshly built ones
    from vf.oracles.shp import shift_spec_time

    if geoms:
        try:
            fresh_geoms = [data.geometry_validate({"type": g.type, "coordinates": shift_spec_time(g.type, g.coordinates, spec["dt"])}, mode="dict") for g in geoms]
        except ValueError:
            return
        fresh = rasterize(fresh_geoms, arr, **kw).transpose("time", "frequency").values
        derived = [g.model_copy(update={"coordinates": f.coordinates}, deep=bool(i % 2)) for i, (g, f) in enumerate(zip(geoms, fresh_geoms))]
        got_d = rasterize(derived, arr, **kw).transpose("time", "frequency").values
        if not np.array_equal(got_d, fresh, equal_nan=True):
            ctx.fail("copies derived (model_copy(update=coordinates)) from rasterised geometries give other cells than freshly built geometries with the same coordinates", spec, got_d.tolist(), fresh.tolist(), kind="stale_derived")
        for g, f in zip(geoms, fresh_geoms):
            g.coordinates = f.coordinates
        got_a = rasterize(geoms, arr, **kw).transpose("time", "frequency").values
        if not np.array_equal(got_a, fresh, equal_nan=True):
            ctx.fail("geometries whose coordinates were re-assigned after a first rasterisation give other cells than freshly built ones", spec, got_a.tolist(), fresh.tolist(), kind="stale_after_assignment")


@st.composite
def decimal_axis_case(draw):
    """Templates as the library's own helpers build them (regular axes with a 'step' attribute, decimal steps, up to 130 bins) and
    boxes whose start and end are exactly two of the axis coordinates."""
    step = draw(st.sampled_from([0.01, 0.1, 0.3, 1 / 44100, 0.05, 0.7, 1 / 3]))
    n = draw(st.sampled_from([60, 100, 120, 130, 180]))
    k = draw(st.integers(0, n - 2))
    j = draw(st.integers(k + 1, n - 1))
    return {"step": step, "n": n, "k": k, "j": j, "order": draw(st.sampled_from(["tf", "ft"])), "start": draw(st.sampled_from([0.0, 0.0, 1.0])), "all_touched": draw(st.booleans())}


def check_decimal_axis(spec, ctx):
    import xarray as xr
    from soundevent import arrays, data
    from soundevent.geometry import rasterize

    step, n, k, j = spec["step"], spec["n"], spec["k"], spec["j"]
    if not (0 <= k < j < n <= 400) or step <= 0:
        raise ValueError("malformed spec")
    tdim = arrays.create_time_range(start_time=spec["start"], end_time=spec["start"] + n * step, step=step)
    fdim = arrays.create_frequency_range(low_freq=0.0, high_freq=3000.0, step=1000.0)
    tc = np.asarray(tdim.data, dtype=float)
    if tc.size <= j:
        raise ValueError("malformed spec: axis shorter than expected")
    arr = xr.DataArray(np.zeros((tc.size, fdim.size)), dims=("time", "frequency"), coords={"time": tdim, "frequency": fdim})
    if spec["order"] == "ft":
        arr = arr.transpose("frequency", "time")
    box = data.BoundingBox(coordinates=[float(tc[k]), 0.0, float(tc[j]), 2999.0])
    ctx.case(spec, nontrivial=True, labels=[f"step={step:.4g}", spec["order"]], out={"k": k, "j": j})
    res = ctx.call(spec, "rasterize(box between two axis coordinates, helper-built template)", rasterize, [box], arr, all_touched=spec["all_touched"])
    got = res.transpose("time", "frequency").values
    marked = sorted(set(np.nonzero(got.any(axis=1))[0].tolist()))
    want = list(range(k, j))
    if marked != want:
        ctx.fail(f"box from time coordinate {k} ({tc[k]!r}) to coordinate {j} ({tc[j]!r}) marks time bins {marked[:3]}..{marked[-3:] if marked else []} ({len(marked)}), the bins from the one containing its start to the one containing its end (exclusive) are {k}..{j - 1}", spec, marked, want, kind="bins")
    # the same axis without attributes (plain numpy coordinates) gives the same raster
    plain = xr.DataArray(np.zeros((tc.size, fdim.size)), dims=("time", "frequency"), coords={"time": tc.copy(), "frequency": np.asarray(fdim.data, dtype=float)})
    got_p = rasterize([box], plain, all_touched=spec["all_touched"]).transpose("time", "frequency").values
    if not np.array_equal(got_p, got):
        ctx.fail("a helper-built template (coordinates with attributes) and a plain template with the same coordinates are rasterised differently", spec, None, None, kind="attrs_matter")


SUBS = [
    Sub("decimal_axes", check_decimal_axis, strategy=decimal_axis_case, quick=1500, thorough=40000),
    Sub("raster_reference", check, strategy=case, quick=5000, thorough=150000, min_nontrivial=0.3),
]
