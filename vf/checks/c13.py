"""C13 - grouping returns the connected components of the similarity graph."""

from __future__ import annotations

import itertools

import numpy as np

from hypothesis import strategies as st

from vf.core import Sub

PROP = "C13"
TECHNIQUE = "exhaustive enumeration of all graphs on <= 6 labelled nodes (property-based testing with a complete finite generator) + Hypothesis random graphs on 7-40 nodes, against a union-find reference"
LEVEL_TEXT = (
    "group_sound_events is run on every symmetric relation on n <= 6 sound events (1+1+2+8+64+1024+32768 graphs, enumerated completely in "
    "both tiers) and on random graphs with 7-40 nodes over the whole density range; the output must be a partition by identity, keep input "
    "order, equal the union-find components, and the recorded calls of the comparison function must all be on two distinct input events. "
    "Exhaustive for n <= 6, exploration beyond."
)
LEVEL_NOTE = "reference = union-find written for the check; the comparison function is a recording lookup into the generated edge set"
RULE = (
    "Enumeration: n in 0..6, every subset of the n(n-1)/2 unordered pairs as the similarity relation (bit mask). Random: n in 7..40, each pair an "
    "edge with a drawn density in {0, 0.02, 0.05, 0.1, 0.3, 1}; optional node relabelling. Non-trivial = some component has >= 3 nodes and is not a "
    "clique (membership only through a chain)."
)
ASSUMPTIONS = ["the comparison function is symmetric and pure (looked up from the generated edge set)", "input sound events are pairwise distinct objects (some may compare equal to each other: copies)"]
EXHAUSTIVE = True


def pairs(n):
    return list(itertools.combinations(range(n), 2))


def enum_small(tier):
    out = []
    for n in range(0, 7):
        k = n * (n - 1) // 2
        for mask in range(1 << k):
            out.append({"n": n, "mask": mask})
    return out


@st.composite
def random_graph(draw):
    n = draw(st.one_of(st.integers(7, 40), st.integers(7, 40), st.sampled_from([64, 129, 300])))
    dens = draw(st.sampled_from([0.0, 0.02, 0.05, 0.1, 0.3, 1.0])) if n <= 40 else draw(st.sampled_from([0.0, 0.001, 0.005]))
    ps = pairs(n)
    if dens == 0.0:
        edges = []
    elif dens == 1.0:
        edges = [list(p) for p in ps]
    else:
        k = max(1, int(len(ps) * dens))
        idx = draw(st.lists(st.integers(0, len(ps) - 1), min_size=0, max_size=k, unique=True))
        edges = [list(ps[i]) for i in sorted(idx)]
    ncopies = draw(st.sampled_from([0, 0, 1, 2, 3]))
    copies = [[draw(st.integers(0, n - 1)), draw(st.integers(0, n - 1))] for _ in range(ncopies)]
    return {"n": n, "edges": edges, "copies": [c for c in copies if c[0] != c[1]]}


def components(n, edges):
    parent = list(range(n))

    def find(x):
        while parent[x] != x:
            parent[x] = parent[parent[x]]
            x = parent[x]
        return x

    for a, b in edges:
        ra, rb = find(a), find(b)
        if ra != rb:
            parent[ra] = rb
    comp = {}
    for i in range(n):
        comp.setdefault(find(i), []).append(i)
    return sorted(comp.values())


_SE_CACHE = {}


def _events(n, variant=0):
    """variant bit 0: events at odd positions have no geometry; bit 1: events come from two recordings (e.g. two synchronised
    recorders) alternately - "any list of sound events"."""
    from soundevent import data

    if (n, variant) not in _SE_CACHE:
        recs = [data.Recording(path=f"r{k}.wav", duration=100.0, channels=1, samplerate=8000) for k in range(2)]
        _SE_CACHE[(n, variant)] = [
            data.SoundEvent(
                geometry=None if (variant & 1 and i % 2) else data.TimeStamp(coordinates=float(i)),
                recording=recs[(i // 2) % 2 if variant & 2 else 0],
            )
            for i in range(n)
        ]
    return _SE_CACHE[(n, variant)]


def spec_hash_small(spec):
    import json, zlib

    return zlib.crc32(json.dumps(spec, sort_keys=True, default=str).encode())


def check(spec, ctx):
    from soundevent import data
    from soundevent.geometry import group_sound_events

    n = spec["n"]
    if "mask" in spec:
        ps = pairs(n)
        edges = [ps[i] for i in range(len(ps)) if spec["mask"] >> i & 1]
    else:
        edges = [tuple(e) for e in spec["edges"]]
    eset = {frozenset(e) for e in edges}
    ret_kind = (spec.get("mask", 0) + len(spec.get("edges", []))) % 6
    variant = (spec.get("mask", 0) // 3 + len(spec.get("edges", [])) // 2 + n) % 4
    events = list(_events(n, variant))
    for i, j in spec.get("copies", []):
        # position i holds a separate object that compares equal to the event at position j (e.g. loaded twice)
        events[i] = _events(n, variant)[j].model_copy()
    index = {id(e): i for i, e in enumerate(events)}
    calls = []

    big = n > 600  # millions of comparisons: only the improper ones are kept

    def cmp(a, b):
        ia, ib = index.get(id(a)), index.get(id(b))
        if not big or ia is None or ib is None or ia == ib:
            calls.append((ia, ib))
        if ia is None or ib is None:
            return False
        ans = frozenset((ia, ib)) in eset
        # callers' comparison functions return whatever their arithmetic returns: bool, numpy.bool_ or 0/1
        # ... or a similarity score (truthy when positive), or nothing at all for "not similar" (a function that falls off its end),
        # or the collection of what the two events share: the answer is taken by its truth value
        return {0: ans, 1: np.bool_(ans), 2: int(ans), 3: (0.375 if ans else 0.0), 4: (True if ans else None), 5: ({"shared"} if ans else set())}[ret_kind]

    exp = components(n, edges)
    deg = {}
    for a, b in edges:
        deg[a] = deg.get(a, 0) + 1
        deg[b] = deg.get(b, 0) + 1
    nontrivial = any(len(c) >= 3 and any(deg.get(v, 0) < len(c) - 1 for v in c) for c in exp)
    ids_before = [id(e) for e in events]
    out = ctx.call(spec, f"group_sound_events(n={n})", group_sound_events, events, cmp)
    if [id(e) for e in events] != ids_before:
        ctx.fail("group_sound_events reordered or modified the input list", spec, None, None, kind="input_mutated")
    ctx.case(spec, nontrivial=nontrivial, labels=[f"n={n}" if n <= 6 else "n>6", f"events_variant={variant}", f"components={min(len(exp), 5)}{'+' if len(exp) > 5 else ''}"], out={"groups": len(out)})

    if 2 <= n <= 40:
        # two groupings in progress at once: this one is suspended at lines inside the library (and inside the comparison
        # function's caller) while another thread groups the reversed tail of the list
        def shape(res):
            return [[index.get(id(e)) for e in s.sound_events] for s in res]

        n_calls = len(calls)
        ctx.interleave(spec, "group_sound_events", lambda: shape(group_sound_events(events, cmp)), lambda: shape(group_sound_events(events[1:][::-1], cmp)), every=3, max_pauses=32)
        del calls[n_calls:]
        # ... and a comparison function may itself need a grouping (e.g. of the two events' own syllables)
        nested_done = []

        def cmp_nested(a, b):
            if len(nested_done) < 3:
                nested_done.append(shape(group_sound_events(events[::-1][: max(2, n // 2)], cmp)))
            return cmp(a, b)

        if spec_hash_small(spec) % 4 == 0:
            out_n = shape(group_sound_events(events, cmp_nested))
            del calls[n_calls:]
            if out_n != shape(out):
                ctx.fail(f"group_sound_events gives {out_n} when the comparison function itself groups other events, {shape(out)} otherwise", spec, out_n, shape(out), kind="not_reentrant")
            ctx.label("nested_grouping")
    if not isinstance(out, list) or not all(isinstance(s, data.Sequence) for s in out):
        ctx.fail("result is not a list of Sequence objects", spec, repr(out)[:200], None, kind="type")
    got = []
    for s in out:
        idxs = []
        for se in s.sound_events:
            if id(se) not in index:
                ctx.fail("a sequence contains an object that is not one of the input events", spec, None, None, kind="partition")
            idxs.append(index[id(se)])
        if idxs != sorted(idxs):
            ctx.fail(f"input order not kept inside a sequence: {idxs}", spec, idxs, sorted(idxs), kind="order")
        if not idxs:
            ctx.fail("empty sequence returned", spec, None, None, kind="partition")
        got.append(idxs)
    flat = sorted(i for g in got for i in g)
    if flat != list(range(n)):
        ctx.fail(f"output is not a partition of the input: indices {flat}", spec, flat, list(range(n)), kind="partition")
    if sorted(got) != exp:
        ctx.fail(f"groups {sorted(got)} differ from the connected components {exp} (edges {sorted(map(sorted, eset))})", spec, sorted(got), exp, kind="components")
    for ia, ib in calls:
        if ia is None or ib is None or ia == ib:
            ctx.fail(f"comparison function called on ({ia},{ib}): not a pair of distinct input events", spec, [ia, ib], None, kind="calls")
    if n == 0 and out != []:
        ctx.fail("empty input must give no sequences", spec, repr(out), [], kind="empty")
    uu = [s.uuid for s in out]
    if len(set(uu)) != len(uu):
        ctx.fail("two returned sequences share an identifier", spec, None, None, kind="uuid")


def enum_long_chains(tier):
    """Chains of a thousand and more events, each similar to the next one only (a long bout of calls): one component, found without
    running out of stack.  Also two such chains interleaved."""
    sizes = [1100, 1500] if tier == "quick" else [1100, 1500, 2500, 4000]
    out = []
    for n in sizes:
        out.append({"n": n, "edges": [[i, i + 1] for i in range(n - 1)]})
        out.append({"n": n, "edges": [[i, i + 2] for i in range(n - 2)]})
    # hubs: one event similar to exactly 255 / 256 / 257 / 512 others (a long call overlapping every short one), listed first, last or in
    # the middle; everything similar to everything (257 events); a hub listed after its 1300 partners
    for leaves in ([255, 256, 257, 512] if tier == "quick" else [127, 128, 255, 256, 257, 511, 512, 513, 1024]):
        for hub in (0, leaves, leaves // 2):
            out.append({"n": leaves + 1, "edges": [[min(hub, i), max(hub, i)] for i in range(leaves + 1) if i != hub]})
        out.append({"n": leaves + 3, "edges": [[0, i] for i in range(1, leaves + 1)] + [[leaves + 1, leaves + 2]]})
    out.append({"n": 257, "edges": [[i, j] for i in range(257) for j in range(i + 1, 257)]})
    for n in ([1300] if tier == "quick" else [1300, 3000]):
        out.append({"n": n, "edges": [[i, n - 1] for i in range(n - 1)]})
        out.append({"n": n, "edges": [[i, n - 2] for i in range(n - 2)] + [[n - 2, n - 1]]})
    return out


SUBS = [
    Sub("long_chains", check, enumerate=enum_long_chains, min_nontrivial=0.0),
    Sub("all_graphs_le6", check, enumerate=enum_small, exhaustive_note="all 33868 symmetric relations on 0..6 labelled nodes", min_nontrivial=0.0),
    Sub("random_graphs", check, strategy=random_graph, quick=2000, thorough=60000, min_nontrivial=0.1),
]
