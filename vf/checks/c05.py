"""C05 - bounds, geometric features and anchor points agree with the coordinates."""

from __future__ import annotations

import math

from hypothesis import strategies as st

from vf.core import Sub
from vf.strategies import ALL_KINDS, MAXF, geom_dict, geometry_spec, leaves, ref_bounds

PROP = "C05"
RULE = (
    "Hypothesis-generated valid geometries of all nine types (dyadic-grid and free-float coordinates, five time "
    "scales x four frequency scales, touching t=0/f=0/f=MAX, polygons with holes, multi-geometries, zero-extent "
    "lines/boxes/intervals). Each case checks compute_bounds, geometry_to_shapely, compute_geometric_features and all "
    "11 named positions of get_geometry_point against a pure-Python min/max walk over the coordinate leaves. "
    "Non-trivial = non-zero extent on at least one axis and >= 2 distinct coordinate points (so left/right or "
    "top/bottom can be told apart)."
)
TECHNIQUE = 'property-based testing: reference model (pure-Python min/max over coordinate leaves) vs compute_bounds / geometry_to_shapely / compute_geometric_features / get_geometry_point'
LEVEL_TEXT = 'Differential test of four code paths against a coordinate walker over generated geometries of all nine types (holes, multi-geometries, zero-extent cases, domain edges) and all 11 named positions. Exploration.'
LEVEL_NOTE = 'trusts the coordinate walker and shapely.get_coordinates as an observer; centroid/point_on_surface only required inside the bounds (16 ulp + 1e-9*extent)'
ASSUMPTIONS = [
    "reference bounds = min/max over the coordinate leaves (time-only geometries span [0, MAX_FREQUENCY])",
    "mid points are (a+b)/2 in binary64; centroid / point_on_surface are only required to lie inside the bounds (tolerance 1e-9*extent + 16 ulp: GEOS computes them as weighted averages)",
]

def f23(spec, kind, message):
    """Open-finding classifier F23: centroid / point_on_surface of a polygon outline that is not shapely-valid."""
    if kind != "point_inside":
        return False
    from vf.oracles.shp import to_shp

    g = spec["g"]
    if g["type"] not in ("Polygon", "MultiPolygon"):
        return False
    try:
        return not to_shp(g["type"], g["coordinates"]).is_valid
    except Exception:
        return True


KNOWN = {"F23-centroid-of-invalid-polygon": f23}

SHAPELY_KIND = {
    "TimeStamp": "LineString",
    "TimeInterval": "Polygon",
    "Point": "Point",
    "LineString": "LineString",
    "Polygon": "Polygon",
    "BoundingBox": "Polygon",
    "MultiPoint": "MultiPoint",
    "MultiLineString": "MultiLineString",
    "MultiPolygon": "MultiPolygon",
}
POSITIONS = [
    "bottom-left", "bottom-right", "top-left", "top-right", "center-left", "center-right",
    "top-center", "bottom-center", "center", "centroid", "point_on_surface",
]


def expected_shapely_coords(kind, c):
    """Flattened coordinates the shapely geometry must carry (list of [t,f]); for boxes a set of corners."""
    def ring(r):
        r = [list(map(float, p)) for p in r]
        if r[0] != r[-1]:
            r = r + [r[0]]
        return r

    if kind == "TimeStamp":
        return [[c, 0.0], [c, float(MAXF)]], False
    if kind == "TimeInterval":
        return [[c[0], 0.0], [c[0], float(MAXF)], [c[1], 0.0], [c[1], float(MAXF)]], True
    if kind == "BoundingBox":
        return [[c[0], c[1]], [c[0], c[3]], [c[2], c[1]], [c[2], c[3]]], True
    if kind == "Point":
        return [list(map(float, c))], False
    if kind in ("LineString", "MultiPoint"):
        return [list(map(float, p)) for p in c], False
    if kind == "MultiLineString":
        return [list(map(float, p)) for line in c for p in line], False
    if kind == "Polygon":
        return [p for r in c for p in ring(r)], False
    if kind == "MultiPolygon":
        return [p for poly in c for r in poly for p in ring(r)], False
    raise AssertionError(kind)


_USER_SUBCLASSES = {}


def _user_subclass(data, kind):
    if kind not in _USER_SUBCLASSES:
        base = getattr(data, kind)
        _USER_SUBCLASSES[kind] = type("Labelled" + kind, (base,), {"__module__": __name__, "note": property(lambda self: "user data")})
    return _USER_SUBCLASSES[kind]


def check(spec, ctx):
    import shapely
    from soundevent import data, geometry, terms

    g = data.geometry_validate(geom_dict(spec["g"]), mode="dict")
    kind = g.type
    coords = g.coordinates
    eb = tuple(float(x) for x in ref_bounds(kind, coords))
    if kind in ("TimeStamp", "TimeInterval", "BoundingBox"):
        npts = 2 if (eb[0] != eb[2] or kind != "TimeStamp") else 1
    else:
        npts = len({tuple(p) for p in leaves(coords)}) if kind != "Point" else 1
    ext_t, ext_f = eb[2] - eb[0], eb[3] - eb[1]
    nontrivial = (ext_t > 0 or (ext_f > 0 and kind not in ("TimeStamp", "TimeInterval"))) and npts >= 2
    labels = [kind, "free" if spec["g"]["meta"]["free"] else "grid"]
    if spec["g"]["meta"]["deg"]:
        labels.append("degenerate=" + spec["g"]["meta"]["deg"])
    if kind in ("Polygon",) and len(coords) > 1:
        labels.append("holes")
    if eb[0] == 0:
        labels.append("t0")
    if eb[3] == MAXF and kind not in ("TimeStamp", "TimeInterval"):
        labels.append("fmax")

    # --- compute_bounds
    got = geometry.compute_bounds(g)
    ctx.case(spec, nontrivial=nontrivial, labels=labels, out={"bounds": list(got)})
    if tuple(float(x) for x in got) != eb or len(got) != 4:
        ctx.fail(f"compute_bounds({kind}) = {tuple(got)}, coordinates give (min t, min f, max t, max f) = {eb}", spec, got, eb, kind="bounds")

    # --- the same geometry as an instance of a user's subclass (a box with an extra property), and after a pickle round trip: it is
    # still that geometry, measured by the same coordinates
    import pickle

    variants = {"unpickled": pickle.loads(pickle.dumps(g))}
    sub_cls = _user_subclass(data, kind)
    variants["user subclass instance"] = sub_cls(coordinates=g.coordinates)
    for how, gv in variants.items():
        gb = geometry.compute_bounds(gv)
        if tuple(float(x) for x in gb) != eb:
            ctx.fail(f"compute_bounds of the {how} of a {kind} = {tuple(gb)}, coordinates give {eb}", spec, gb, eb, kind="bounds_variant")
        sv = geometry.geometry_to_shapely(gv)
        if sv.geom_type != SHAPELY_KIND[kind]:
            ctx.fail(f"geometry_to_shapely of the {how} of a {kind} gives a {sv.geom_type}", spec, sv.geom_type, SHAPELY_KIND[kind], kind="shapely_variant")

    # --- shapely conversion
    shp = geometry.geometry_to_shapely(g)
    if shp.geom_type != SHAPELY_KIND[kind]:
        ctx.fail(f"geometry_to_shapely({kind}) has kind {shp.geom_type}, expected {SHAPELY_KIND[kind]}", spec, shp.geom_type, SHAPELY_KIND[kind], kind="shapely_kind")
    exp_pts, as_set = expected_shapely_coords(kind, coords)
    got_pts = [list(map(float, p)) for p in shapely.get_coordinates(shp).tolist()]
    if kind in ("Polygon", "MultiPolygon"):
        # ring by ring, modulo the closing point(s) shapely appends (a ring needs >= 4 coordinates)
        def norm(r):
            r = [list(map(float, q)) for q in r]
            while len(r) > 1 and r[-1] == r[0]:
                r = r[:-1]
            return r

        polys = [shp] if kind == "Polygon" else list(shp.geoms)
        want = [coords] if kind == "Polygon" else coords
        got_rings = [[norm(pg.exterior.coords)] + [norm(i.coords) for i in pg.interiors] for pg in polys]
        exp_rings = [[norm(r) for r in pg] for pg in want]
        ok = got_rings == exp_rings
        got_pts, exp_pts = got_rings, exp_rings
    elif as_set:
        ok = {tuple(p) for p in got_pts} == {tuple(p) for p in exp_pts} and got_pts[0] == got_pts[-1]
    else:
        ok = got_pts == exp_pts
    if not ok:
        ctx.fail(f"geometry_to_shapely({kind}) does not preserve the coordinates", spec, got_pts[:12], exp_pts[:12], kind="shapely_coords")
    if kind in ("MultiPoint", "MultiLineString", "MultiPolygon") and len(shp.geoms) != len(coords):
        ctx.fail(f"geometry_to_shapely({kind}) has {len(shp.geoms)} parts, expected {len(coords)}", spec, len(shp.geoms), len(coords), kind="shapely_parts")
    if kind == "Polygon" and len(shp.interiors) != len(coords) - 1:
        ctx.fail("polygon holes lost in shapely conversion", spec, len(shp.interiors), len(coords) - 1, kind="shapely_holes")
    if kind == "MultiPolygon":
        for part, poly in zip(shp.geoms, coords):
            if len(part.interiors) != len(poly) - 1:
                ctx.fail("multipolygon holes lost in shapely conversion", spec, len(part.interiors), len(poly) - 1, kind="shapely_holes")

    # --- features
    feats = geometry.compute_geometric_features(g)
    tms = [f.term for f in feats]
    for i in range(len(tms)):
        for j in range(i + 1, len(tms)):
            if tms[i] == tms[j] or tms[i].name == tms[j].name or tms[i].label == tms[j].label:
                ctx.fail(f"compute_geometric_features({kind}): duplicate term {tms[i].label}", spec, [t.label for t in tms], None, kind="feature_terms")
    by = {}
    for f in feats:
        by[f.term.name] = f.value
    names = {"duration": terms.duration.name, "low": terms.low_freq.name, "high": terms.high_freq.name, "bw": terms.bandwidth.name, "n": terms.num_segments.name}
    want = {"duration": eb[2] - eb[0]}
    time_only = kind in ("TimeStamp", "TimeInterval")
    if not time_only:
        want.update({"low": eb[1], "high": eb[3], "bw": eb[3] - eb[1]})
    if kind.startswith("Multi"):
        want["n"] = float(len(coords))
    for key, val in want.items():
        if names[key] not in by:
            ctx.fail(f"compute_geometric_features({kind}) lacks '{key}' ({names[key]})", spec, sorted(by), key, kind="feature_missing")
        elif float(by[names[key]]) != float(val):
            ctx.fail(f"compute_geometric_features({kind}) {key} = {by[names[key]]}, coordinates give {val}", spec, by[names[key]], val, kind="feature_value")
    if time_only:
        # optional extras must still be consistent with the bounds
        for key, val in (("low", eb[1]), ("high", eb[3]), ("bw", eb[3] - eb[1])):
            if names[key] in by and float(by[names[key]]) != float(val):
                ctx.fail(f"compute_geometric_features({kind}) {key} = {by[names[key]]} inconsistent with bounds {val}", spec, by[names[key]], val, kind="feature_value")

    # --- the returned list belongs to the caller: changing it must not influence later results
    feats.append(data.Feature(term=terms.num_segments if "n" not in want else terms.duration, value=12345.0))
    feats.reverse()
    again = geometry.compute_geometric_features(g)
    if sorted((f.term.name, float(f.value)) for f in again) != sorted((names[k], float(v)) for k, v in want.items()) and not time_only:
        ctx.fail(f"compute_geometric_features({kind}) changed after the caller modified an earlier result: {[(f.term.label, f.value) for f in again]}", spec, None, None, kind="result_aliased")
    if time_only and any(f.value == 12345.0 for f in again):
        ctx.fail(f"compute_geometric_features({kind}) returns a list shared between calls (a caller's append shows up in the next result)", spec, None, None, kind="result_aliased")

    # --- named positions
    tl, fl, tr, fh = eb
    tm, fm = (tl + tr) / 2, (fl + fh) / 2
    T = {"left": tl, "center": tm, "right": tr}
    Fq = {"bottom": fl, "center": fm, "top": fh}
    for pos in POSITIONS:
        p = geometry.get_geometry_point(g, position=pos)
        p = (float(p[0]), float(p[1]))
        if len(p) != 2:
            ctx.fail(f"get_geometry_point({kind},{pos}) is not a pair", spec, p, None, kind="point_shape")
        if pos in ("centroid", "point_on_surface"):
            tol_t = 1e-9 * (tr - tl) + 16 * math.ulp(max(abs(tr), 1e-300)) + 1e-12
            tol_f = 1e-9 * (fh - fl) + 16 * math.ulp(max(abs(fh), 1e-300)) + 1e-12
            if not (tl - tol_t <= p[0] <= tr + tol_t and fl - tol_f <= p[1] <= fh + tol_f):
                ctx.fail(f"get_geometry_point({kind},{pos}) = {p} lies outside the bounds {eb}", spec, p, eb, kind="point_inside")
            continue
        if pos == "center":
            exp = (tm, fm)
        else:
            v, h = pos.split("-")
            exp = (T[h], Fq[v])
        if p != exp:
            ctx.fail(f"get_geometry_point({kind},'{pos}') = {p}, bounds give {exp}", spec, p, exp, kind="point_value")
    # default position
    if tuple(map(float, geometry.get_geometry_point(g))) != (tl, fl):
        ctx.fail("get_geometry_point default position is not bottom-left", spec, None, (tl, fl), kind="point_value")

    # objects derived from an already queried geometry (copy with new coordinates, deep copy, JSON round trip)
    # must be measured by THEIR coordinates: no result may be carried over from the object they were derived from
    from vf.oracles.shp import shift_spec_time
    import copy as _copy

    dt = spec.get("dt", 10.0)
    shifted = shift_spec_time(kind, coords, dt)
    try:
        revalidated = data.geometry_validate({"type": kind, "coordinates": shifted}, mode="dict")
    except ValueError:
        ctx.label("shift_collapses_line_skipped")  # adding dt can merge two nearly equal times of a multi-line
        return
    derived = {
        "model_copy(update)": g.model_copy(update={"coordinates": revalidated.coordinates}),
        "model_copy(deep, update)": g.model_copy(update={"coordinates": revalidated.coordinates}, deep=True),
        "revalidated": revalidated,
    }
    shifted = revalidated.coordinates
    dc = _copy.deepcopy(g)
    want_s = tuple(float(x) for x in ref_bounds(kind, shifted))
    for how, h in derived.items():
        gb = tuple(float(x) for x in geometry.compute_bounds(h))
        if gb != want_s:
            ctx.fail(f"{how} of a {kind} shifted by {dt} s: compute_bounds = {gb}, its coordinates give {want_s}", spec, gb, want_s, kind="stale_bounds")
        pt = tuple(map(float, geometry.get_geometry_point(h, position="top-right")))
        if pt != (want_s[2], want_s[3]):
            ctx.fail(f"{how} of a {kind}: top-right = {pt}, its coordinates give {(want_s[2], want_s[3])}", spec, pt, (want_s[2], want_s[3]), kind="stale_bounds")
        dur = [f.value for f in geometry.compute_geometric_features(h) if f.term.name == terms.duration.name]
        if dur and float(dur[0]) != want_s[2] - want_s[0]:
            ctx.fail(f"{how} of a {kind}: duration feature {dur[0]} != {want_s[2] - want_s[0]}", spec, dur[0], want_s[2] - want_s[0], kind="stale_bounds")
    # two threads measuring two different geometries: this one is suspended at lines inside the library while the other thread
    # measures the shifted geometry from start to end
    def measure(x):
        shp = geometry.geometry_to_shapely(x)
        return (
            tuple(float(v) for v in geometry.compute_bounds(x)),
            shp.geom_type,
            tuple(float(v) for v in shp.bounds),
            tuple(map(float, geometry.get_geometry_point(x, position="center"))),
            [(f.term.name, float(f.value)) for f in geometry.compute_geometric_features(x)],
        )

    ctx.interleave(spec, f"compute_bounds / geometry_to_shapely / get_geometry_point / compute_geometric_features ({kind})", lambda: measure(g), lambda: measure(revalidated), every=4, max_pauses=40)
    if tuple(float(x) for x in geometry.compute_bounds(dc)) != eb:
        ctx.fail("deep copy reports different bounds", spec, None, eb, kind="stale_bounds")
    if tuple(float(x) for x in geometry.compute_bounds(g)) != eb:
        ctx.fail("bounds of the original changed after deriving copies", spec, None, eb, kind="stale_bounds")


def check_bad_position(spec, ctx):
    from soundevent import data, geometry

    g = data.geometry_validate(geom_dict(spec["g"]), mode="dict")
    ctx.case(spec, nontrivial=True, labels=[g.type])
    try:
        p = geometry.get_geometry_point(g, position=spec["pos"])
    except ValueError:
        return
    except Exception as e:
        ctx.fail(f"unknown position raised {type(e).__name__} not ValueError", spec, repr(e), "ValueError", kind="wrong_exception")
        return
    ctx.fail(f"unknown position {spec['pos']!r} accepted: {p}", spec, p, "ValueError", kind="false_accept")


@st.composite
def case(draw):
    g = draw(geometry_spec(invalid_polygons=True))
    if g["type"] in ("MultiPoint", "MultiLineString", "MultiPolygon") and draw(st.integers(0, 5)) == 0:
        # the same member listed twice (a call annotated twice, a merged export): every listed part counts and converts
        c = list(g["coordinates"])
        c.insert(draw(st.integers(0, len(c))), c[draw(st.integers(0, len(c) - 1))])
        g = {"type": g["type"], "coordinates": c, "meta": g["meta"]}
    if g["type"] == "MultiLineString" and draw(st.integers(0, 3)) == 0:
        # a further line that starts exactly where one of the lines ends (a call traced in two strokes): still one more part
        c = list(g["coordinates"])
        end = c[draw(st.integers(0, len(c) - 1))][-1]
        step = g["meta"]["ts"] / 8 if g["meta"].get("ts") else 0.125
        nxt = [list(end), [end[0] + step, end[1]]]
        if nxt[1][0] > nxt[0][0]:
            c.insert(draw(st.integers(0, len(c))), nxt)
            g = {"type": g["type"], "coordinates": c, "meta": g["meta"]}
    return {"g": g, "dt": draw(st.sampled_from([0.5, 10.0, 1024.0]))}


TINY = [0.0, 5e-324, 1e-323, 1.5e-323, 2e-323, 4e-323, 2.2250738585072014e-308, 4.450147717014403e-308, 1e-300]


@st.composite
def tiny_case(draw):
    """Geometries at the very bottom of the float range: sub-normal times and frequencies (a time stamp of one sub-normal step is as
    valid as any other non-negative time); bounds, features and anchor points still follow from the coordinates."""
    kind = draw(st.sampled_from(["TimeStamp", "TimeInterval", "BoundingBox", "Point", "LineString", "MultiPoint"]))
    v = st.sampled_from(TINY)
    if kind == "TimeStamp":
        c = draw(v)
    elif kind == "TimeInterval":
        c = sorted([draw(v), draw(v)])
    elif kind == "BoundingBox":
        t, f = sorted([draw(v), draw(v)]), sorted([draw(v), draw(v)])
        c = [t[0], f[0], t[1], f[1]]
    elif kind == "Point":
        c = [draw(v), draw(v)]
    elif kind == "LineString":
        ts = sorted(draw(st.lists(v, min_size=2, max_size=4, unique=True)))
        c = [[t, draw(v)] for t in ts]
    else:
        c = [[draw(v), draw(v)] for _ in range(draw(st.integers(1, 3)))]
    return {"g": {"type": kind, "coordinates": c, "meta": {"ts": 1.0, "fs": 1.0, "free": False, "flip": False, "deg": None, "t_off": 0.0, "f_off": 0.0}}, "dt": 10.0}


@st.composite
def bad_pos_case(draw):
    return {"g": draw(geometry_spec(small=True)), "pos": draw(st.sampled_from(["left-top", "middle", "center-center", "top", "", "Bottom-Left", "right-bottom"]))}


SUBS = [
    Sub("coords_vs_api", check, strategy=case, quick=16000, thorough=400000, min_nontrivial=0.3),
    Sub("tiny_coordinates", check, strategy=tiny_case, quick=600, thorough=10000, min_nontrivial=0.2),
    Sub("unknown_position", check_bad_position, strategy=bad_pos_case, quick=800, thorough=8000),
]
