"""C08 - detection evaluation accounts for every sound event and only credits overlaps."""

from __future__ import annotations

import numpy as np
from hypothesis import strategies as st

from vf import evalgen
from vf.checks.c07 import brute_best_dp
from vf.core import Sub

PROP = "C08"
TECHNIQUE = "property-based testing: reference model of the detection evaluation written from the statement (clip intersection, exact cover, overlap-only pairing with independently computed affinities and brute-force optimal total, class-probability scores, means) over generated clip sets"
LEVEL_TEXT = (
    "sound_event_detection is run on generated inputs: 1-4 clips with a drawn overlap of the annotated / predicted clip sets, 0-4 annotated and 0-4 predicted sound events per clip "
    "with or without geometry placed in time clusters (overlapping, near, far apart), vocabularies of 2-5 tags, true tags none / in / out of vocabulary, predicted scores on a k/64 grid "
    "summing to at most 1; the result is compared with a reference: evaluated clips = intersection, every event in exactly one match, pairs only where an independent compute_affinity is "
    "positive and then affinity == that value and score == probability of the annotation's class (1 - sum when unlabelled), unpaired and geometry-less events with affinity 0 and score 0, "
    "total paired affinity == brute-force optimum, clip score == mean of match scores, overall score == mean of clip scores. Exploration."
)
LEVEL_NOTE = "reference affinity = closed-form IoU (area IoU of two boxes, 1-D IoU when a time interval is involved) - independent of compute_affinity; at least one evaluated sound event overall (with none the sklearn metrics are undefined)"
RULE = (
    "Hypothesis strategy vf.evalgen.detection_inputs (time intervals and boxes on a 1/8 s grid in clusters at 0, 8 and 20 s; one in six events has no geometry). "
    "Non-trivial = some evaluated clip has >= 2 events on each side and at least one event that overlaps nothing or has no geometry."
)
ASSUMPTIONS = ["predicted scores of one event over the vocabulary sum to at most 1", "each clip id appears at most once per input list"]


@st.composite
def case(draw):
    spec = draw(evalgen.detection_inputs())
    return spec


@st.composite
def many_case(draw):
    """A perfect detector on a clip with many events (1 .. 130): every match scores exactly 1, so does the clip and the whole run.
    Means over dozens of equal numbers are where a re-derived averaging formula starts to be off by an ulp."""
    n = draw(st.one_of(st.integers(1, 130), st.sampled_from([20, 33, 58, 72, 88, 93, 95, 97, 110, 115, 128])))
    third = draw(st.booleans())  # or every third event missed (scores 0 mixed in)
    anns, preds = [], []
    for i in range(n):
        g = {"type": "TimeInterval", "coordinates": [0.5 * i, 0.5 * i + 0.25]} if i % 2 else {"type": "BoundingBox", "coordinates": [0.5 * i, 1000.0, 0.5 * i + 0.25, 2000.0]}
        anns.append({"geometry": g, "tags": [i % 2]})
        if not (third and i % 3 == 2):
            preds.append({"geometry": g, "tags": [[i % 2, 1.0]], "conf": 1.0})
    return {"vocab": [["species", "a"], ["species", "b"]], "clips": [{"side": "both", "anns": anns, "preds": preds, "separate_clip": None}], "order": [0]}


def check(spec, ctx):
    from soundevent.evaluation import compute_affinity, sound_event_detection

    if len(spec["vocab"]) < 2 or len({tuple(v) for v in spec["vocab"]}) != len(spec["vocab"]) or any(c["side"] not in ("both", "ann", "pred") for c in spec["clips"]):
        raise ValueError("malformed spec (vocabulary of at least two distinct tags; the single-tag vocabulary is C09's finding F10)")
    cps, cas, vocab, index = evalgen.build(spec)
    nv = len(vocab)
    both = [i for i, c in enumerate(spec["clips"]) if c["side"] == "both"]
    n_events = sum(len(spec["clips"][i]["anns"]) + len(spec["clips"][i]["preds"]) for i in both)
    if n_events == 0:
        ctx.case(spec, nontrivial=False, labels=["no_events_skipped"])
        return
    labelled = any(evalgen.first_in_vocab(a["tags"]) is not None for i in both for a in spec["clips"][i]["anns"])
    nontrivial = False
    for i in both:
        c = spec["clips"][i]
        if len(c["anns"]) >= 2 and len(c["preds"]) >= 2:
            geos = [e["geometry"] for e in c["anns"] + c["preds"]]
            if any(g is None for g in geos):
                nontrivial = True
            else:
                ts = [(g["coordinates"][0], g["coordinates"][1] if g["type"] == "TimeInterval" else g["coordinates"][2]) for g in geos]
                for k, (s, e) in enumerate(ts):
                    if all(k == j or e + 0.02 < s2 or e2 + 0.02 < s for j, (s2, e2) in enumerate(ts)):
                        nontrivial = True
    labels = [f"clips={len(spec['clips'])}", f"both={len(both)}", "labelled" if labelled else "unlabelled", "geometryless" if any(e["geometry"] is None for i in both for e in spec["clips"][i]["anns"] + spec["clips"][i]["preds"]) else "all_geom"]
    if not labelled:
        # mean average precision is undefined without a labelled item: only require that nothing but that metric can fail
        ctx.case(spec, nontrivial=False, labels=labels + ["no_labelled_item_skipped"])
        return
    from vf.core import snapshot

    before = snapshot((cps, cas, vocab))
    ev = ctx.call(spec, "sound_event_detection", sound_event_detection, cps, cas, vocab)
    ctx.unchanged(spec, "sound_event_detection: clip predictions / clip annotations / tags", before, (cps, cas, vocab))
    # the inputs are declared as sequences: tuples are sequences too
    ev_t = ctx.call(spec, "sound_event_detection(tuples)", sound_event_detection, tuple(cps), tuple(cas), tuple(vocab))
    if ev_t.score != ev.score or len(ev_t.clip_evaluations) != len(ev.clip_evaluations):
        ctx.fail(f"sound_event_detection on tuples gives score {ev_t.score} over {len(ev_t.clip_evaluations)} clips, on lists {ev.score} over {len(ev.clip_evaluations)}", spec, ev_t.score, ev.score, kind="tuple_inputs")
    # ... and so is any other collections.abc.Sequence (a deque, a user's own read-only container)
    from vf.core import SeqView
    import collections as _c

    for how, S in (("a custom Sequence", SeqView), ("deques", _c.deque)):
        ev_s = ctx.call(spec, f"sound_event_detection({how})", sound_event_detection, S(cps), S(cas), S(vocab))
        if ev_s.score != ev.score or len(ev_s.clip_evaluations) != len(ev.clip_evaluations) or [c.score for c in ev_s.clip_evaluations] != [c.score for c in ev.clip_evaluations]:
            ctx.fail(f"sound_event_detection on {how} gives score {ev_s.score} over {len(ev_s.clip_evaluations)} clips, on lists {ev.score} over {len(ev.clip_evaluations)}", spec, ev_s.score, ev.score, kind="sequence_inputs")
    # two evaluations running in two threads with two vocabularies: this one is suspended at lines inside the library while the other
    # thread evaluates the same clips, in reverse order, against the vocabulary without its first class, reversed
    def digest(e):
        return repr((e.score, [(str(c.annotations.clip.uuid), c.score, sorted(((m.affinity, m.score) for m in c.matches), key=repr)) for c in e.clip_evaluations], sorted(((m.term.name, m.value) for m in e.metrics), key=repr)))

    vocab_b = (vocab[1:] if len(vocab) > 2 else vocab)[::-1]
    ctx.interleave(
        spec,
        "sound_event_detection",
        lambda: digest(sound_event_detection(cps, cas, vocab)),
        lambda: digest(sound_event_detection(cps[::-1], cas[::-1], vocab_b)),
        every=6,
        max_pauses=14,
    )
    ctx.case(spec, nontrivial=nontrivial, labels=labels, out={"clip_evaluations": len(ev.clip_evaluations), "score": ev.score})

    got_ids = sorted(str(ce.annotations.clip.uuid) for ce in ev.clip_evaluations)
    want_ids = sorted(evalgen._uid(1000 + i) for i in both)
    if got_ids != want_ids:
        ctx.fail(f"evaluated clips {got_ids} != clips present in both inputs {want_ids}", spec, got_ids, want_ids, kind="clip_set")
    clip_scores = []
    for ce in ev.clip_evaluations:
        ci = index["clips"][str(ce.annotations.clip.uuid)]
        c = spec["clips"][ci]
        if ce.predictions.clip.uuid != ce.annotations.clip.uuid:
            ctx.fail("clip evaluation mixes two clips", spec, None, None, kind="clip_set")
        seen_a, seen_p = [], []
        total_aff = 0.0
        mscores = []
        for m in ce.matches:
            a = index["ann"].get(str(m.target.uuid)) if m.target is not None else None
            p = index["pred"].get(str(m.source.uuid)) if m.source is not None else None
            if (m.target is not None and (a is None or a[0] != ci)) or (m.source is not None and (p is None or p[0] != ci)):
                ctx.fail("a match refers to a sound event of another clip", spec, None, None, kind="cover")
            if a is not None:
                seen_a.append(a[1])
            if p is not None:
                seen_p.append(p[1])
            mscores.append(m.score)
            if a is not None and p is not None:
                ga, gp = m.target.sound_event.geometry, m.source.sound_event.geometry
                if ga is None or gp is None:
                    ctx.fail("a geometry-less sound event was paired", spec, None, None, kind="geometryless_paired")
                ref = evalgen.ref_affinity(c["preds"][p[1]]["geometry"], c["anns"][a[1]]["geometry"])
                if abs(compute_affinity(gp, ga) - ref) > 1e-9:
                    ctx.fail(f"compute_affinity of the pair is {compute_affinity(gp, ga)}, the closed-form IoU of the two geometries is {ref}", spec, compute_affinity(gp, ga), ref, kind="affinity")
                if not ref > 0:
                    ctx.fail(f"prediction {p[1]} is paired with annotation {a[1]} of clip {ci} although their geometries do not overlap (affinity {ref})", spec, [p[1], a[1]], "unpaired", kind="no_overlap_paired")
                if abs(m.affinity - ref) > 1e-9:
                    ctx.fail(f"match reports affinity {m.affinity}, the geometric affinity of the pair is {ref}", spec, m.affinity, ref, kind="affinity")
                total_aff += ref
                t = evalgen.first_in_vocab(c["anns"][a[1]]["tags"])
                vec = evalgen.score_vector(c["preds"][p[1]]["tags"], nv)
                exp_score = float(vec[t]) if t is not None else 1.0 - float(vec.sum())
                if m.score is None or abs(m.score - exp_score) > 1e-6:
                    ctx.fail(f"pair (prediction {p[1]}, annotation {a[1]}) has score {m.score}, the probability given to the annotation's class is {exp_score}", spec, m.score, exp_score, kind="pair_score")
            else:
                if m.affinity != 0 or (m.score or 0) != 0:
                    ctx.fail(f"unpaired event has affinity {m.affinity} and score {m.score}, expected 0 and 0", spec, [m.affinity, m.score], [0, 0], kind="unpaired_values")
        if sorted(seen_a) != list(range(len(c["anns"]))) or sorted(seen_p) != list(range(len(c["preds"]))):
            ctx.fail(f"clip {ci}: annotations {sorted(seen_a)} / predictions {sorted(seen_p)} mentioned in matches, expected each of {len(c['anns'])} / {len(c['preds'])} exactly once", spec, [sorted(seen_a), sorted(seen_p)], None, kind="cover")
        # optimal pairing among events with geometry
        ai = [k for k, e in enumerate(c["anns"]) if e["geometry"] is not None]
        pi = [k for k, e in enumerate(c["preds"]) if e["geometry"] is not None]
        ann_objs = {index["ann"][str(x.uuid)][1]: x for x in ce.annotations.sound_events}
        pred_objs = {index["pred"][str(x.uuid)][1]: x for x in ce.predictions.sound_events}
        mat = tuple(tuple(evalgen.ref_affinity(c["preds"][p]["geometry"], c["anns"][a]["geometry"]) for a in ai) for p in pi)
        if len(pi) > 8 or len(ai) > 8:
            # the subset DP is exponential; on the large clips every prediction overlaps exactly one annotation, so the optimum is
            # simply the sum of the row maxima
            best = sum(max(row) if row else 0.0 for row in mat)
            if any(sum(1 for x in row if x > 0) > 1 for row in mat) or any(sum(1 for row in mat if row[a] > 0) > 1 for a in range(len(ai))):
                best = total_aff  # not a one-to-one overlap pattern: optimality not asserted here
        else:
            best = brute_best_dp(mat, len(pi), len(ai))
        if abs(best - total_aff) > 1e-9:
            ctx.fail(f"clip {ci}: total affinity of the reported pairs {total_aff} is not the optimum {best}", spec, total_aff, best, kind="optimal")
        exp_clip = float(np.mean([s or 0.0 for s in mscores])) if mscores else 0.0
        if ce.score is None or abs(ce.score - exp_clip) > 1e-9:
            ctx.fail(f"clip {ci}: score {ce.score}, mean of its match scores is {exp_clip}", spec, ce.score, exp_clip, kind="clip_score")
        clip_scores.append(exp_clip)
    exp_total = float(np.mean(clip_scores)) if clip_scores else 0.0
    if ev.score is None or abs(ev.score - exp_total) > 1e-9:
        ctx.fail(f"overall score {ev.score}, mean of the clip scores is {exp_total}", spec, ev.score, exp_total, kind="overall_score")
    ev_again = sound_event_detection(cps, cas, vocab)
    if ev_again.score != ev.score or [(str(m.source.uuid) if m.source else None, str(m.target.uuid) if m.target else None, m.affinity, m.score) for ce in ev_again.clip_evaluations for m in ce.matches] != [
        (str(m.source.uuid) if m.source else None, str(m.target.uuid) if m.target else None, m.affinity, m.score) for ce in ev.clip_evaluations for m in ce.matches
    ]:
        ctx.fail("evaluating the same inputs twice gives different matches / scores", spec, None, None, kind="not_repeatable")
    if ev.evaluation_task != "sound_event_detection":
        ctx.fail("evaluation_task is not sound_event_detection", spec, ev.evaluation_task, None, kind="task")


@st.composite
def enclosed_case(draw):
    """A traced contour that closes on itself (a frequency-modulated call drawn as a ring, a figure of eight, two arcs) and a short event
    in the middle of the area it encloses, many buffers away from the line: the two do not overlap."""
    W = draw(st.sampled_from([0.5, 1.0, 2.0]))
    H = draw(st.sampled_from([4000.0, 8000.0]))
    t0 = draw(st.sampled_from([0.5, 2.0, 10.0]))
    f0 = draw(st.sampled_from([1000.0, 5000.0]))
    shape = draw(st.sampled_from(["rectangle", "diamond", "two_arcs", "hexagon"]))
    inner = draw(st.sampled_from(["box", "interval_like_box", "tiny_box"]))
    return {"W": W, "H": H, "t0": t0, "f0": f0, "shape": shape, "inner": inner, "line_is_annotation": draw(st.booleans()), "extra_pair": draw(st.booleans()), "score": draw(st.sampled_from([0.25, 0.5, 1.0]))}


def check_enclosed(spec, ctx):
    import shapely
    from shapely import affinity as saff
    from soundevent import data
    from soundevent.evaluation import sound_event_detection

    W, H, t0, f0 = spec["W"], spec["H"], spec["t0"], spec["f0"]
    if spec["shape"] not in ("rectangle", "diamond", "two_arcs", "hexagon") or W < 0.5 or H < 4000 or spec["inner"] not in ("box", "interval_like_box", "tiny_box"):
        raise ValueError("malformed spec")
    a, b, c, d = t0, t0 + W, f0, f0 + H
    tm, fm = (a + b) / 2, (c + d) / 2
    if spec["shape"] == "rectangle":
        line = data.LineString(coordinates=[[a, c], [a, d], [b, d], [b, c], [a, c]])
    elif spec["shape"] == "diamond":
        line = data.LineString(coordinates=[[a, fm], [tm, d], [b, fm], [tm, c], [a, fm]])
    elif spec["shape"] == "hexagon":
        line = data.LineString(coordinates=[[a, fm], [a + W / 4, d], [b - W / 4, d], [b, fm], [b - W / 4, c], [a + W / 4, c], [a, fm]])
    else:
        line = data.MultiLineString(coordinates=[[[a, fm], [tm, d], [b, fm]], [[a, fm], [tm, c], [b, fm]]])
    w, h = {"box": (W / 10, H / 10), "interval_like_box": (W / 10, H / 40), "tiny_box": (W / 100, H / 100)}[spec["inner"]]
    inner = data.BoundingBox(coordinates=[tm - w / 2, fm - h / 2, tm + w / 2, fm + h / 2])
    # independent statement of "they do not overlap": in units of the default buffers (0.01 s, 100 Hz) the line and the box are more than
    # 8 apart (a mitre join reaches at most ~5 buffers beyond a vertex)
    sl = saff.scale(shapely.geometry.shape({"type": line.type, "coordinates": line.coordinates}), 100.0, 0.01, origin=(0, 0))
    sb = saff.scale(shapely.box(*inner.coordinates), 100.0, 0.01, origin=(0, 0))
    if sl.distance(sb) <= 8:
        raise ValueError("malformed spec: the inner event must be far from the line")
    rec = data.Recording(uuid=evalgen._uid(1), path="r.wav", duration=100.0, channels=1, samplerate=44100)
    clip = data.Clip(uuid=evalgen._uid(2), recording=rec, start_time=0.0, end_time=30.0)
    ta, tb_ = data.Tag(term=data.term_from_key("species"), value="a"), data.Tag(term=data.term_from_key("species"), value="b")
    g_ann, g_pred = (line, inner) if spec["line_is_annotation"] else (inner, line)
    anns = [data.SoundEventAnnotation(uuid=evalgen._uid(10), sound_event=data.SoundEvent(uuid=evalgen._uid(11), recording=rec, geometry=g_ann), tags=[ta], created_on="2020-01-01T00:00:00")]
    preds = [data.SoundEventPrediction(uuid=evalgen._uid(20), sound_event=data.SoundEvent(uuid=evalgen._uid(21), recording=rec, geometry=g_pred), score=spec["score"], tags=[data.PredictedTag(tag=ta, score=spec["score"])])]
    if spec["extra_pair"]:
        far = data.BoundingBox(coordinates=[20.0, 100.0, 21.0, 900.0])
        anns.append(data.SoundEventAnnotation(uuid=evalgen._uid(12), sound_event=data.SoundEvent(uuid=evalgen._uid(13), recording=rec, geometry=far), tags=[tb_], created_on="2020-01-01T00:00:00"))
        preds.append(data.SoundEventPrediction(uuid=evalgen._uid(22), sound_event=data.SoundEvent(uuid=evalgen._uid(23), recording=rec, geometry=far), score=0.5, tags=[data.PredictedTag(tag=tb_, score=0.5)]))
    ca = data.ClipAnnotation(uuid=evalgen._uid(30), clip=clip, sound_events=anns, created_on="2020-01-01T00:00:00")
    cp = data.ClipPrediction(uuid=evalgen._uid(31), clip=clip, sound_events=preds)
    ctx.case(spec, nontrivial=True, labels=[spec["shape"], spec["inner"], "line=annotation" if spec["line_is_annotation"] else "line=prediction"])
    ev = ctx.call(spec, "sound_event_detection(contour enclosing an event)", sound_event_detection, [cp], [ca], [ta, tb_])
    if len(ev.clip_evaluations) != 1:
        ctx.fail(f"{len(ev.clip_evaluations)} clip evaluations for one clip", spec, len(ev.clip_evaluations), 1, kind="clip_set")
    for m in ev.clip_evaluations[0].matches:
        if m.source is not None and m.target is not None and {m.source.uuid, m.target.uuid} == {preds[0].uuid, anns[0].uuid}:
            ctx.fail(f"the event inside the area enclosed by the {spec['shape']} contour is paired with the contour (affinity {m.affinity}, score {m.score}) although the two are more than 8 buffers apart", spec, [m.affinity, m.score], "unpaired", kind="paired_without_overlap")
    seen = sorted(str(x.uuid) for m in ev.clip_evaluations[0].matches for x in (m.source, m.target) if x is not None)
    if seen != sorted(str(x.uuid) for x in anns + preds):
        ctx.fail("not every sound event appears in exactly one match", spec, seen, None, kind="cover")


SUBS = [
    Sub("enclosed_events", check_enclosed, strategy=enclosed_case, quick=160, thorough=2000, min_nontrivial=0.0),
    Sub("many_events", check, strategy=many_case, quick=20, thorough=400, min_nontrivial=0.0),
    Sub("detection_reference", check, strategy=case, quick=2000, thorough=60000, min_nontrivial=0.05),
]
