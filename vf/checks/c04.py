"""C04 - relational schema invariants cannot be bypassed at construction."""

from __future__ import annotations

import copy
import json
import math
import os
import collections
import types
import uuid as uuidlib

from hypothesis import strategies as st

from vf.checks.c01 import scratch
from vf.core import Sub

PROP = "C04"
TECHNIQUE = "property-based testing: differential test of construction against a reference predicate over generated arrangements (match covers with mutations, clip pairings, task membership, start/end orderings, score palette) through four paths: constructor, model_validate(dict), model_validate_json, AOEF load of an edited document"
LEVEL_TEXT = (
    "Arrangements (not objects) are generated: a canonical match cover plus 0-2 mutations (drop, duplicate with a fresh uuid, foreign annotation / "
    "prediction, one-sided split, merge, both sides null), clip pairings (same / different / different clip with equal times), project task "
    "membership patterns, clip start/end around equality (1 ulp), and every score / affinity / tag probability field with values around 0 and 1 "
    "(incl. -0.0, 5e-324, 1+ulp, NaN). Construction must succeed iff the reference predicate holds, identically on all four paths; a rejection must be a "
    "ValidationError (a ValueError on the AOEF path). Exploration."
)
LEVEL_NOTE = "for the AOEF path a valid collection is saved and the JSON document is edited to express the arrangement, then soundevent.io.load is called; Evaluation.score is unconstrained in the schema and not claimed"
RULE = (
    "Hypothesis strategies per invariant (5 sub-checks). Non-trivial = an arrangement with >= 1 mutation, or an all-unmatched / empty arrangement that must be accepted, "
    "or a value within 1 ulp of a bound."
)
ASSUMPTIONS = ["sub-objects (recordings, clips, sound events, annotations, predictions) are themselves valid", "uuids identify objects"]


class Ids:
    def __init__(self, salt):
        self.salt, self.n = salt, 0

    def __call__(self):
        self.n += 1
        return str(uuidlib.UUID(int=(self.salt << 64) | self.n))


def base_objects(ids, nclips=2, equal_times=False):
    from soundevent import data

    rec = data.Recording(uuid=ids(), path="a.wav", duration=10.0, channels=1, samplerate=8000)
    clips = [data.Clip(uuid=ids(), recording=rec, start_time=0.0 if equal_times else float(i), end_time=5.0 if equal_times else float(i) + 5.0) for i in range(nclips)]
    return rec, clips


def reject_ok(e):
    import pydantic

    return isinstance(e, pydantic.ValidationError)


def _as_mapping(d, sel):
    """a plain dict handed over as another Mapping (a read-only view, a layered configuration, a UserDict subclass)"""
    import collections
    import types

    k = sel % 3
    if k == 0:
        return types.MappingProxyType(dict(d))
    if k == 1:
        items = list(d.items())
        return collections.ChainMap(dict(items[: len(items) // 2]), dict(items[len(items) // 2 :]))
    return collections.UserDict(d)


def try_paths(ctx, spec, cls, kwargs, exp, what, paths=("ctor", "dict", "json", "mapping")):
    """Construct cls through the three in-memory paths; compare acceptance with exp."""
    import pydantic

    def dump(v, mode):
        if isinstance(v, pydantic.BaseModel):
            return v.model_dump(mode=mode)
        if isinstance(v, (list, tuple)):
            return [dump(x, mode) for x in v]
        return v

    results = {}
    for p in paths:
        try:
            if p == "ctor":
                cls(**kwargs)
            elif p == "dict":
                cls.model_validate({k: dump(v, "python") for k, v in kwargs.items()})
            elif p == "mapping":
                cls.model_validate(_as_mapping({k: dump(v, "python") for k, v in kwargs.items()}, len(json.dumps(spec, default=str))))
            else:
                payload = json.dumps({k: dump(v, "json") for k, v in kwargs.items()}, default=str)
                cls.model_validate_json(payload)
            results[p] = True
        except pydantic.ValidationError:
            results[p] = False
        except Exception as e:  # noqa: BLE001
            ctx.fail(f"{what}: path {p} raised {type(e).__name__}: {str(e)[:150]} (must be ValidationError or succeed)", spec, repr(e)[:200], "ValidationError", kind="wrong_exception")
            results[p] = False
    for p, ok in results.items():
        if ok and not exp:
            ctx.fail(f"{what}: accepted through {p} although the invariant is violated", spec, results, exp, kind="false_accept")
        if exp and not ok:
            ctx.fail(f"{what}: rejected through {p} although every invariant holds", spec, results, exp, kind="false_reject")
    return results


def aoef_load_expect(ctx, spec, doc, exp, what):
    from soundevent import io

    path = os.path.join(scratch(), "doc04.json")
    with open(path, "w") as fh:
        json.dump(doc, fh)
    try:
        io.load(path)
        ok = True
    except ValueError:  # pydantic.ValidationError is a ValueError
        ok = False
    except Exception as e:  # noqa: BLE001
        ctx.fail(f"{what}: AOEF load raised {type(e).__name__}: {str(e)[:150]} (must be a validation error or succeed)", spec, repr(e)[:200], "ValueError", kind="wrong_exception")
        return
    if ok and not exp:
        ctx.fail(f"{what}: accepted through AOEF loading although the invariant is violated", spec, "loaded", "rejected", kind="false_accept_aoef")
    if exp and not ok:
        ctx.fail(f"{what}: rejected through AOEF loading although every invariant holds", spec, "rejected", "loaded", kind="false_reject_aoef")


def saved_doc(obj, ctx, spec):
    from soundevent import io

    path = os.path.join(scratch(), "src04.json")
    # a well-formed collection: writing it must succeed (an error here is the library's, not the harness's)
    ctx.call(spec, f"io.save({type(obj).__name__}) of a well-formed collection", io.save, obj, path)
    with open(path) as fh:
        return json.load(fh)


# ---------------------------------------------------------------------------------------------
# (a) clip evaluation arrangements

MUTS = ["drop", "dup", "foreign_target", "foreign_source", "split", "both_null_extra", "swap_sides_none", "merge", "dup_and_drop", "dup_and_drop"]
RARE_MUTS = ["dup_x255", "dup_x256", "dup_x511"]  # one pair mentioned by 256 / 257 / 512 matches (counters kept in 8 bits wrap there)


@st.composite
def ce_case(draw):
    k = draw(st.integers(0, 3))
    m = draw(st.integers(0, 3))
    npair = draw(st.integers(0, min(k, m)))
    pairing = draw(st.sampled_from(["same", "same", "same", "different", "different_equal_times", "same_uuid_other_content"]))
    muts = draw(st.lists(st.sampled_from(MUTS), min_size=0, max_size=2))
    if npair and draw(st.integers(0, 24)) == 0:
        muts = [draw(st.sampled_from(RARE_MUTS))]
    return {"k": k, "m": m, "npair": npair, "pairing": pairing, "muts": muts, "salt": draw(st.integers(1, 2**32)), "pick": draw(st.integers(0, 10)),
            "hash_twins": draw(st.integers(0, 3)) == 0}


def check_ce(spec, ctx):
    from soundevent import data

    if spec["pairing"] not in ("same", "different", "different_equal_times", "same_uuid_other_content") or any(m not in MUTS + RARE_MUTS for m in spec["muts"]) or spec["npair"] > min(spec["k"], spec["m"]):
        raise ValueError("malformed spec")
    ids = Ids(spec["salt"])
    rec, clips = base_objects(ids, 2, equal_times=spec["pairing"] == "different_equal_times")
    ses = [data.SoundEvent(uuid=ids(), recording=rec, geometry=data.TimeInterval(coordinates=[0.1 * i, 0.1 * i + 0.05])) for i in range(spec["k"] + spec["m"] + 2)]
    def twin_ids(n):
        """n identifiers; when the spec asks for it, consecutive ones differ by 2^61 - 1 (Python's hash modulus), i.e. they are different
        uuids with the same hash() - objects are told apart by identifier, never by hash"""
        if not n:
            return []
        first = uuidlib.UUID(ids())
        if spec.get("hash_twins"):
            return [str(uuidlib.UUID(int=first.int + i * (2**61 - 1))) for i in range(n)]
        return [str(first)] + [ids() for _ in range(n - 1)]

    anns = [data.SoundEventAnnotation(uuid=u, sound_event=ses[i], created_on="2020-01-01T00:00:00") for i, u in enumerate(twin_ids(spec["k"]))]
    preds = [data.SoundEventPrediction(uuid=u, sound_event=ses[spec["k"] + j], score=0.5) for j, u in enumerate(twin_ids(spec["m"]))]
    foreign_ann = data.SoundEventAnnotation(uuid=ids(), sound_event=ses[-1], created_on="2020-01-01T00:00:00")
    foreign_pred = data.SoundEventPrediction(uuid=ids(), sound_event=ses[-2], score=0.25)
    ca = data.ClipAnnotation(uuid=ids(), clip=clips[0], sound_events=anns, created_on="2020-01-01T00:00:00")
    same_clip = spec["pairing"] in ("same", "same_uuid_other_content")
    pred_clip = clips[0] if same_clip else clips[1]
    if spec["pairing"] == "same_uuid_other_content":
        # the SAME clip (same identifier) as another tool holds it: a separate object that carries a feature the annotation side's copy
        # lacks.  "Refer to the same clip" is a statement about identifiers.
        pred_clip = data.Clip(uuid=clips[0].uuid, recording=rec, start_time=clips[0].start_time, end_time=clips[0].end_time, features=[data.Feature(term=data.term_from_key("snr"), value=3.0)])
    cp = data.ClipPrediction(uuid=ids(), clip=pred_clip, sound_events=preds)

    # canonical cover as (source index | None | 'F', target index | None | 'F')
    arr = [[j, j] for j in range(spec["npair"])]
    arr += [[j, None] for j in range(spec["npair"], spec["m"])] + [[None, i] for i in range(spec["npair"], spec["k"])]
    pick = spec["pick"]
    applied = []
    for mu in spec["muts"]:
        if mu == "drop" and arr:
            arr.pop(pick % len(arr)); applied.append(mu)
        elif mu == "dup" and arr:
            arr.append(list(arr[pick % len(arr)])); applied.append(mu)
        elif mu in RARE_MUTS and arr:
            arr.extend(list(arr[pick % len(arr)]) for _ in range(int(mu[5:]))); applied.append(mu)
        elif mu == "dup_and_drop" and len(arr) >= 2:
            # one event mentioned twice while another is mentioned by no match: every count still agrees
            i = pick % len(arr)
            j = (i + 1 + pick // 3) % len(arr)
            if j != i:
                arr[j] = list(arr[i]); applied.append(mu)
        elif mu == "foreign_target":
            arr.append([None, "F"]); applied.append(mu)
        elif mu == "foreign_source":
            arr.append(["F", None]); applied.append(mu)
        elif mu == "split":
            pairs = [a for a in arr if a[0] is not None and a[1] is not None]
            if pairs:
                a = pairs[pick % len(pairs)]
                arr.remove(a); arr += [[a[0], None], [None, a[1]]]; applied.append(mu)
        elif mu == "merge":
            srcs = [a for a in arr if a[0] is not None and a[1] is None]
            tgts = [a for a in arr if a[1] is not None and a[0] is None]
            if srcs and tgts:
                s, t = srcs[0], tgts[0]
                arr.remove(s); arr.remove(t); arr.append([s[0], t[1]]); applied.append(mu)
        elif mu == "both_null_extra":
            arr.append([None, None]); applied.append(mu)
        elif mu == "swap_sides_none" and arr:
            a = arr[pick % len(arr)]
            if a[0] is not None and a[1] is not None:
                a[1] = None; applied.append(mu)

    # reference predicate
    srcs = [a[0] for a in arr if a[0] is not None]
    tgts = [a[1] for a in arr if a[1] is not None]
    exp = (
        same_clip
        and all(not (a[0] is None and a[1] is None) for a in arr)
        and sorted(map(str, srcs)) == sorted(map(str, range(spec["m"])))
        and sorted(map(str, tgts)) == sorted(map(str, range(spec["k"])))
    )
    nontrivial = bool(applied) or spec["pairing"] != "same" or (spec["npair"] == 0 and spec["k"] + spec["m"] > 0) or (spec["k"] + spec["m"] == 0)
    ctx.case(spec, nontrivial=nontrivial, labels=[f"pairing={spec['pairing']}", "exp=ok" if exp else "exp=reject"] + [f"mut={m}" for m in applied], out={"arr": arr})

    def obj_s(x):
        return None if x is None else (foreign_pred if x == "F" else preds[x])

    def obj_t(x):
        return None if x is None else (foreign_ann if x == "F" else anns[x])

    import pydantic

    def build_matches(mode):
        out = []
        for a in arr:
            kw = {"uuid": ids(), "source": obj_s(a[0]), "target": obj_t(a[1]), "affinity": 0.5 if (a[0] is not None and a[1] is not None) else 0.0}
            if mode == "dict":
                out.append({k: (v.model_dump() if isinstance(v, pydantic.BaseModel) else v) for k, v in kw.items()})
            elif mode == "json":
                out.append({k: (v.model_dump(mode="json") if isinstance(v, pydantic.BaseModel) else v) for k, v in kw.items()})
            else:
                out.append(data.Match(**kw))
        return out

    results = {}
    for p in ("ctor", "dict", "json", "mapping"):
        try:
            if p == "ctor":
                data.ClipEvaluation(annotations=ca, predictions=cp, matches=build_matches("ctor"))
            elif p == "mapping":
                sel = len(json.dumps(spec, default=str))
                data.ClipEvaluation.model_validate(_as_mapping({"annotations": ca.model_dump(), "predictions": cp.model_dump(), "matches": [_as_mapping(m, sel + i) for i, m in enumerate(build_matches("dict"))]}, sel + 1))
            elif p == "dict":
                data.ClipEvaluation.model_validate({"annotations": ca.model_dump(), "predictions": cp.model_dump(), "matches": build_matches("dict")})
            else:
                data.ClipEvaluation.model_validate_json(json.dumps({"annotations": ca.model_dump(mode="json"), "predictions": cp.model_dump(mode="json"), "matches": build_matches("json")}))
            results[p] = True
        except pydantic.ValidationError:
            results[p] = False
        except Exception as e:  # noqa: BLE001
            ctx.fail(f"ClipEvaluation via {p} raised {type(e).__name__}: {str(e)[:150]}", spec, repr(e)[:200], "ValidationError", kind="wrong_exception")
            results[p] = False
    if not arr:
        # no matches at all: leaving the argument / key out is the same arrangement as passing an empty list
        for p in ("ctor", "dict", "json"):
            try:
                if p == "ctor":
                    data.ClipEvaluation(annotations=ca, predictions=cp)
                elif p == "dict":
                    data.ClipEvaluation.model_validate({"annotations": ca.model_dump(), "predictions": cp.model_dump()})
                else:
                    data.ClipEvaluation.model_validate_json(json.dumps({"annotations": ca.model_dump(mode="json"), "predictions": cp.model_dump(mode="json")}))
                results[p + ", matches omitted"] = True
            except pydantic.ValidationError:
                results[p + ", matches omitted"] = False
    for p, ok in results.items():
        if ok and not exp:
            ctx.fail(f"ClipEvaluation accepted via {p}: arrangement {arr} (k={spec['k']} annotations, m={spec['m']} predictions, clips {spec['pairing']})", spec, results, exp, kind="false_accept")
        if exp and not ok:
            ctx.fail(f"ClipEvaluation rejected via {p}: arrangement {arr} is a valid cover", spec, results, exp, kind="false_reject")

    # AOEF path: save a valid evaluation (canonical cover, same clip) that also contains the foreign objects, then edit the document
    cp_ok = data.ClipPrediction(uuid=cp.uuid, clip=clips[0], sound_events=preds)
    canon = [data.Match(uuid=ids(), source=preds[j], target=anns[j], affinity=0.5) for j in range(spec["npair"])]
    canon += [data.Match(uuid=ids(), source=preds[j], affinity=0.0) for j in range(spec["npair"], spec["m"])]
    canon += [data.Match(uuid=ids(), target=anns[i], affinity=0.0) for i in range(spec["npair"], spec["k"])]
    ce_ok = data.ClipEvaluation(uuid=ids(), annotations=ca, predictions=cp_ok, matches=canon)
    # a second clip evaluation holds the foreign annotation / prediction and the second clip, so that they are defined in the document
    ca2 = data.ClipAnnotation(uuid=ids(), clip=clips[1], sound_events=[foreign_ann], created_on="2020-01-01T00:00:00")
    cp2 = data.ClipPrediction(uuid=ids(), clip=clips[1], sound_events=[foreign_pred])
    ce2 = data.ClipEvaluation(uuid=ids(), annotations=ca2, predictions=cp2, matches=[data.Match(uuid=ids(), source=foreign_pred, target=foreign_ann, affinity=0.5)])
    ev = data.Evaluation(uuid=ids(), evaluation_task="t", clip_evaluations=[ce_ok, ce2], created_on="2020-01-01T00:00:00")
    doc = saved_doc(ev, ctx, spec)
    d = doc["data"]
    new_matches = []
    listed = []
    same_id_twice = "dup" in applied and spec["pick"] % 2 == 0  # the duplicate is the very same match (its id listed twice)
    for a in arr:
        if same_id_twice and any(a == b for b, _ in listed):
            listed.append((a, next(u for b, u in listed if b == a)))
            continue
        mo = {"uuid": ids(), "affinity": 0.5}
        if a[0] is not None:
            mo["source"] = str(obj_s(a[0]).uuid)
        if a[1] is not None:
            mo["target"] = str(obj_t(a[1]).uuid)
        new_matches.append(mo)
        listed.append((a, mo["uuid"]))
    keep = [m for m in d.get("matches") or [] if m["uuid"] not in {str(x.uuid) for x in canon}]
    d["matches"] = keep + new_matches
    for e in d["clip_evaluations"]:
        if e["uuid"] == str(ce_ok.uuid):
            e["matches"] = [u for _, u in listed]
            if not listed and spec["pick"] % 2:
                del e["matches"]  # key left out of the document instead of an empty list
    if not same_clip:
        for c in d["clip_predictions"]:
            if c["uuid"] == str(cp.uuid):
                c["clip"] = str(clips[1].uuid)
    aoef_load_expect(ctx, spec, doc, exp, f"ClipEvaluation arrangement {arr} (clips {spec['pairing']})")


# ---------------------------------------------------------------------------------------------
# (b) match sides


@st.composite
def match_case(draw):
    return {"source": draw(st.booleans()), "target": draw(st.booleans()), "explicit_none": draw(st.booleans()), "salt": draw(st.integers(1, 2**32))}


def check_match(spec, ctx):
    from soundevent import data

    ids = Ids(spec["salt"])
    rec, clips = base_objects(ids, 1)
    se = data.SoundEvent(uuid=ids(), recording=rec, geometry=None)
    ann = data.SoundEventAnnotation(uuid=ids(), sound_event=se, created_on="2020-01-01T00:00:00")
    pred = data.SoundEventPrediction(uuid=ids(), sound_event=se)
    kw = {"uuid": ids()}
    if spec["source"]:
        kw["source"] = pred
    elif spec["explicit_none"]:
        kw["source"] = None
    if spec["target"]:
        kw["target"] = ann
    elif spec["explicit_none"]:
        kw["target"] = None
    exp = spec["source"] or spec["target"]
    ctx.case(spec, nontrivial=True, labels=[f"s={spec['source']}", f"t={spec['target']}"])
    try_paths(ctx, spec, data.Match, kw, exp, f"Match(source={'set' if spec['source'] else 'None'}, target={'set' if spec['target'] else 'None'})")
    # AOEF: a valid one-match evaluation, then null the sides in the document
    ca = data.ClipAnnotation(uuid=ids(), clip=clips[0], sound_events=[ann], created_on="2020-01-01T00:00:00")
    cp = data.ClipPrediction(uuid=ids(), clip=clips[0], sound_events=[pred])
    good = data.Match(uuid=ids(), source=pred, target=ann, affinity=0.5)
    ev = data.Evaluation(uuid=ids(), evaluation_task="t", created_on="2020-01-01T00:00:00", clip_evaluations=[data.ClipEvaluation(uuid=ids(), annotations=ca, predictions=cp, matches=[good])])
    doc = saved_doc(ev, ctx, spec)
    mo = doc["data"]["matches"][0]
    extra = []
    if not spec["source"]:
        mo.pop("source")
        if spec["target"]:
            extra.append({"uuid": ids(), "source": str(pred.uuid), "affinity": 0.0})
    if not spec["target"]:
        mo.pop("target")
        if spec["source"]:
            extra.append({"uuid": ids(), "target": str(ann.uuid), "affinity": 0.0})
    doc["data"]["matches"] += extra
    doc["data"]["clip_evaluations"][0]["matches"] += [m["uuid"] for m in extra]
    aoef_load_expect(ctx, spec, doc, exp, "Match sides in an AOEF document")


# ---------------------------------------------------------------------------------------------
# (c) annotation project membership


@st.composite
def project_case(draw):
    n = draw(st.integers(1, 4))
    return {"clips": [[draw(st.booleans()), draw(st.booleans())] for _ in range(n)], "salt": draw(st.integers(1, 2**32)), "dup_uuid_clip": draw(st.booleans()),
            "ann_order": draw(st.permutations(list(range(n)))), "task_order": draw(st.permutations(list(range(n)))), "double": draw(st.integers(0, 3)) == 0}


def check_project(spec, ctx):
    from soundevent import data

    ids = Ids(spec["salt"])
    rec, clips = base_objects(ids, len(spec["clips"]))
    n = len(clips)
    if sorted(spec.get("ann_order", range(n))) != list(range(n)) or sorted(spec.get("task_order", range(n))) != list(range(n)):
        raise ValueError("malformed spec")
    tasks, anns = [], []
    for k in spec.get("task_order", range(n)):  # tasks and annotations are listed in independent orders
        if spec["clips"][k][0]:
            tasks.append(data.AnnotationTask(uuid=ids(), clip=clips[k], created_on="2020-01-01T00:00:00"))
    for k in spec.get("ann_order", range(n)):
        clip, (has_task, annotated) = clips[k], spec["clips"][k]
        if annotated:
            c = clip
            if spec["dup_uuid_clip"]:
                c = data.Clip(uuid=clip.uuid, recording=rec, start_time=clip.start_time, end_time=clip.end_time)  # equal copy, same uuid
            anns.append(data.ClipAnnotation(uuid=ids(), clip=c, created_on="2020-01-01T00:00:00"))
            if spec.get("double"):  # two annotations of the same task clip
                anns.append(data.ClipAnnotation(uuid=ids(), clip=c, created_on="2020-01-01T00:00:00"))
    exp = all(has_task or not annotated for has_task, annotated in spec["clips"])
    ctx.case(spec, nontrivial=any(a and not t for t, a in spec["clips"]) or not any(a for _, a in spec["clips"]), labels=["exp=ok" if exp else "exp=reject"])
    kw = {"uuid": ids(), "name": "p", "tasks": tasks, "clip_annotations": anns, "created_on": "2020-01-01T00:00:00"}
    try_paths(ctx, spec, data.AnnotationProject, kw, exp, f"AnnotationProject (has_task, annotated) per clip = {spec['clips']}")
    # AOEF: valid project where every annotated clip has a task, then delete the tasks that the arrangement lacks
    full_tasks = [data.AnnotationTask(uuid=ids(), clip=clip, created_on="2020-01-01T00:00:00") for clip in clips]
    proj = data.AnnotationProject(uuid=ids(), name="p", tasks=full_tasks, clip_annotations=anns, created_on="2020-01-01T00:00:00")
    doc = saved_doc(proj, ctx, spec)
    drop = {str(clip.uuid) for clip, (has_task, _) in zip(clips, spec["clips"]) if not has_task}
    doc["data"]["tasks"] = [t for t in doc["data"].get("tasks") or [] if t["clip"] not in drop]
    aoef_load_expect(ctx, spec, doc, exp, f"AnnotationProject membership {spec['clips']} in an AOEF document")
    if not doc["data"]["tasks"]:
        # no task at all: the "tasks" member may just as well be missing or null in a document written by another tool
        for how in ("absent", "null"):
            doc2 = copy.deepcopy(doc)
            if how == "absent":
                del doc2["data"]["tasks"]
            else:
                doc2["data"]["tasks"] = None
            aoef_load_expect(ctx, spec, doc2, exp, f"AnnotationProject membership {spec['clips']} in an AOEF document whose tasks member is {how}")
        ctx.label("aoef_tasks_member_absent_or_null")


# ---------------------------------------------------------------------------------------------
# (d) clip start / end


@st.composite
def clip_case(draw):
    # also around the end of the recording (10 s at 8 kHz): at it, half a sample and one sample after it, well after it
    base = draw(st.sampled_from([0.0, 1.0, 0.1, 2.5, 1e6, 1e-9, 10.0, 10.00005, 10.000125, 9.99995, 12.0]))
    rel = draw(st.sampled_from(["equal", "ulp_before", "ulp_after", "before", "after", "zero_negzero", "within_sample_after", "within_sample_before"]))
    return {"base": base, "rel": rel, "salt": draw(st.integers(1, 2**32)), "ints": draw(st.booleans())}


def check_clip(spec, ctx):
    from soundevent import data

    if spec["rel"] not in ("equal", "ulp_before", "ulp_after", "before", "after", "zero_negzero", "within_sample_after", "within_sample_before"):
        raise ValueError("malformed spec")
    ids = Ids(spec["salt"])
    rec, _ = base_objects(ids, 0)
    s = spec["base"]
    e = {"equal": s, "ulp_before": math.nextafter(s, -math.inf), "ulp_after": math.nextafter(s, math.inf), "before": s - 1.0, "after": s + 1.0, "zero_negzero": s,
         "within_sample_after": s + 0.00005, "within_sample_before": s - 0.00005}[spec["rel"]]
    if spec["rel"] == "zero_negzero":
        s, e = 0.0, -0.0
    if spec["ints"] and float(int(s)) == s and float(int(e)) == e:
        s, e = int(s), int(e)
    exp = not (s > e)
    ctx.case(spec, nontrivial=spec["rel"] in ("equal", "ulp_before", "ulp_after", "zero_negzero"), labels=[spec["rel"], "exp=ok" if exp else "exp=reject"])
    kw = {"uuid": ids(), "recording": rec, "start_time": s, "end_time": e}
    try_paths(ctx, spec, data.Clip, kw, exp, f"Clip(start_time={s!r}, end_time={e!r})")
    if exp:
        # what was accepted is what was given: the constructed clip has these two times, in this order
        for how, obj in (("constructor", data.Clip(**kw)), ("model_validate", data.Clip.model_validate(dict(kw, uuid=ids()))), ("model_validate_json", data.Clip.model_validate_json(json.dumps({"uuid": ids(), "recording": json.loads(rec.model_dump_json()), "start_time": s, "end_time": e})))):
            if obj.start_time > obj.end_time or float(obj.start_time) != float(s) or float(obj.end_time) != float(e):
                ctx.fail(f"Clip(start_time={s!r}, end_time={e!r}) built through the {how} has start_time={obj.start_time!r}, end_time={obj.end_time!r}: a clip never starts after it ends, and keeps the times it was given", spec, [obj.start_time, obj.end_time], [s, e], kind="clip_times_changed")
    # the same two times in other (value-preserving) representations, as they come out of numpy code, a database or a text file
    import decimal
    import fractions

    import numpy as np
    import pydantic

    reps = {"numpy.float64": np.float64, "Decimal": decimal.Decimal, "Fraction": fractions.Fraction, "numpy.float32": np.float32, "numpy.int64": np.int64}
    for rname, f in reps.items():
        try:
            rs, re_ = f(s), f(e)
            if float(rs) != float(s) or float(re_) != float(e):
                continue  # not value-preserving for these two numbers (float32 rounding, int of a fraction)
        except (ValueError, TypeError, OverflowError):
            continue
        for path in ("ctor", "dict", "MappingProxyType", "ChainMap"):
            try:
                if path == "ctor":
                    data.Clip(uuid=ids(), recording=rec, start_time=rs, end_time=re_)
                elif path == "dict":
                    data.Clip.model_validate({"uuid": ids(), "recording": rec, "start_time": rs, "end_time": re_})
                elif path == "MappingProxyType":  # read-only and layered mappings are mappings too
                    data.Clip.model_validate(types.MappingProxyType({"uuid": ids(), "recording": rec, "start_time": rs, "end_time": re_}))
                else:
                    data.Clip.model_validate(collections.ChainMap({"start_time": rs, "end_time": re_}, {"uuid": ids(), "recording": rec}))
                ok = True
            except pydantic.ValidationError:
                ok = False
            if ok != exp:
                ctx.fail(f"Clip(start_time={rs!r}, end_time={re_!r}) given as {rname} via {path}: {'accepted' if ok else 'rejected'}, the same numbers as floats are {'accepted' if exp else 'rejected'}", spec, ok, exp, kind="false_accept" if ok else "false_reject")
    good = data.Clip(uuid=ids(), recording=rec, start_time=0.0, end_time=1.0)
    doc = saved_doc(data.AnnotationSet(uuid=ids(), created_on="2020-01-01T00:00:00", clip_annotations=[data.ClipAnnotation(uuid=ids(), clip=good, created_on="2020-01-01T00:00:00")]), ctx, spec)
    doc["data"]["clips"][0]["start_time"] = s
    doc["data"]["clips"][0]["end_time"] = e
    aoef_load_expect(ctx, spec, doc, exp, f"Clip start={s!r} end={e!r} in an AOEF document")


# ---------------------------------------------------------------------------------------------
# (e) scores, affinities, probabilities

SCORE_VALUES = [-1e-9, -1.0, -5e-324, -0.0, 0, 0.0, 5e-324, 0.5, math.nextafter(1.0, 0.0), 1, 1.0, math.nextafter(1.0, 2.0), 1.5, float("nan"), 1e300]
FIELDS = ["PredictedTag.score", "SoundEventPrediction.score", "SequencePrediction.score", "Match.affinity", "Match.score", "ClipEvaluation.score",
          "ClipPrediction.tags.score", "SequencePrediction.tags.score", "SoundEventPrediction.tags.score"]


@st.composite
def score_case(draw):
    return {"field": draw(st.sampled_from(FIELDS)), "value": draw(st.sampled_from(SCORE_VALUES)), "salt": draw(st.integers(1, 2**32)),
            "container": draw(st.sampled_from(["evaluation", "evaluation", "prediction_set", "model_run"]))}


def check_score(spec, ctx):
    from soundevent import data

    if spec["field"] not in FIELDS:
        raise ValueError("malformed spec")
    ids = Ids(spec["salt"])
    v = spec["value"]
    if v == "NaN":
        v = float("nan")
    exp = (not (isinstance(v, float) and math.isnan(v))) and 0 <= v <= 1
    near = v in (-5e-324, -0.0, 0, 5e-324, math.nextafter(1.0, 0.0), 1, math.nextafter(1.0, 2.0)) or (isinstance(v, float) and math.isnan(v))
    ctx.case(spec, nontrivial=bool(near), labels=[spec["field"], "exp=ok" if exp else "exp=reject"])
    rec, clips = base_objects(ids, 1)
    se = data.SoundEvent(uuid=ids(), recording=rec, geometry=None)
    seq = data.Sequence(uuid=ids(), sound_events=[se])
    tag = data.Tag(term=data.term_from_key("k"), value="v")
    ann = data.SoundEventAnnotation(uuid=ids(), sound_event=se, created_on="2020-01-01T00:00:00")
    f = spec["field"]

    def ptag(score):
        return data.PredictedTag(tag=tag, score=score)

    # in-memory paths on the class that declares the constraint
    if f == "PredictedTag.score" or f.endswith(".tags.score"):
        try_paths(ctx, spec, data.PredictedTag, {"tag": tag, "score": v}, exp, f"PredictedTag(score={v!r})")
    elif f == "SoundEventPrediction.score":
        try_paths(ctx, spec, data.SoundEventPrediction, {"uuid": ids(), "sound_event": se, "score": v}, exp, f"SoundEventPrediction(score={v!r})")
    elif f == "SequencePrediction.score":
        try_paths(ctx, spec, data.SequencePrediction, {"uuid": ids(), "sequence": seq, "score": v}, exp, f"SequencePrediction(score={v!r})")
    elif f == "Match.affinity":
        try_paths(ctx, spec, data.Match, {"uuid": ids(), "target": ann, "affinity": v}, exp, f"Match(affinity={v!r})")
    elif f == "Match.score":
        try_paths(ctx, spec, data.Match, {"uuid": ids(), "target": ann, "score": v}, exp, f"Match(score={v!r})")
    elif f == "ClipEvaluation.score":
        ca = data.ClipAnnotation(uuid=ids(), clip=clips[0], created_on="2020-01-01T00:00:00")
        cp = data.ClipPrediction(uuid=ids(), clip=clips[0])
        try_paths(ctx, spec, data.ClipEvaluation, {"uuid": ids(), "annotations": ca, "predictions": cp, "score": v}, exp, f"ClipEvaluation(score={v!r})")

    # AOEF path: a valid evaluation with every scored field present, then set the one field in the document
    pred = data.SoundEventPrediction(uuid=ids(), sound_event=se, score=0.5, tags=[ptag(0.5)])
    sp = data.SequencePrediction(uuid=ids(), sequence=seq, score=0.5, tags=[ptag(0.5)])
    ca = data.ClipAnnotation(uuid=ids(), clip=clips[0], sound_events=[ann], created_on="2020-01-01T00:00:00")
    cp = data.ClipPrediction(uuid=ids(), clip=clips[0], sound_events=[pred], sequences=[sp], tags=[ptag(0.5)])
    mt = data.Match(uuid=ids(), source=pred, target=ann, affinity=0.5, score=0.5)
    ce = data.ClipEvaluation(uuid=ids(), annotations=ca, predictions=cp, matches=[mt], score=0.5)
    ev = data.Evaluation(uuid=ids(), evaluation_task="t", created_on="2020-01-01T00:00:00", clip_evaluations=[ce])
    container = spec.get("container", "evaluation")
    if container not in ("evaluation", "prediction_set", "model_run"):
        raise ValueError("malformed spec")
    if f.startswith(("Match.", "ClipEvaluation.")):
        container = "evaluation"
    if container == "prediction_set":
        ev = data.PredictionSet(uuid=ids(), clip_predictions=[cp], created_on="2020-01-01T00:00:00")
    elif container == "model_run":
        ev = data.ModelRun(uuid=ids(), name="m", clip_predictions=[cp], created_on="2020-01-01T00:00:00")
    ctx.label(f"container={container}")
    doc = saved_doc(ev, ctx, spec)
    d = doc["data"]
    jv = v
    if f in ("PredictedTag.score", "SoundEventPrediction.tags.score"):
        d["sound_event_predictions"][0]["tags"][0][1] = jv
    elif f == "ClipPrediction.tags.score":
        d["clip_predictions"][0]["tags"][0][1] = jv
    elif f == "SequencePrediction.tags.score":
        d["sequence_predictions"][0]["tags"][0][1] = jv
    elif f == "SoundEventPrediction.score":
        d["sound_event_predictions"][0]["score"] = jv
    elif f == "SequencePrediction.score":
        d["sequence_predictions"][0]["score"] = jv
    elif f == "Match.affinity":
        d["matches"][0]["affinity"] = jv
    elif f == "Match.score":
        d["matches"][0]["score"] = jv
    elif f == "ClipEvaluation.score":
        d["clip_evaluations"][0]["score"] = jv
    aoef_load_expect(ctx, spec, doc, exp, f"{f} = {v!r} in an AOEF {container} document")


SUBS = [
    Sub("clip_evaluation_cover", check_ce, strategy=ce_case, quick=2500, thorough=60000, min_nontrivial=0.3),
    Sub("match_sides", check_match, strategy=match_case, quick=300, thorough=3000),
    Sub("project_membership", check_project, strategy=project_case, quick=800, thorough=20000, min_nontrivial=0.2),
    Sub("clip_times", check_clip, strategy=clip_case, quick=600, thorough=10000, min_nontrivial=0.3),
    Sub("score_ranges", check_score, strategy=score_case, quick=1500, thorough=30000, min_nontrivial=0.3),
]
