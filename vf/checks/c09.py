"""C09 - evaluation metrics are what their terms say, in all four tasks."""

from __future__ import annotations

import os
import warnings

import numpy as np
from hypothesis import strategies as st

from vf import evalgen
from vf.checks.c01 import scratch
from vf.core import Sub

PROP = "C09"
TECHNIQUE = "property-based testing: independent NumPy re-implementation of every named metric (tie-aware bands, both conventions where a metric is undefined) + metamorphic relations (clip-order invariance, AOEF save/load of the evaluation) for the four tasks"
LEVEL_TEXT = (
    "clip_classification, clip_multilabel_classification, sound_event_classification and sound_event_detection are run on generated inputs (1-4 clips, vocabularies of 1-6 tags, "
    "true tags none / in / out of vocabulary, predicted scores on a k/64 grid with deliberate ties, empty clips, geometry-less events); the metrics of every evaluation, clip evaluation "
    "and match must carry pairwise distinct terms and equal a NumPy-only reference (accuracy, balanced accuracy and top-3 accuracy with the extra 'none' class as a [lower, upper] band "
    "under ties and exactly when tie-free; macro mean average precision over labelled items; per-clip average precision and Jaccard; true-class probability); scores must aggregate as means; "
    "permuting the clips must not change any evaluation-level value; save/load must preserve every (term label, value). Exploration."
)
LEVEL_NOTE = "classes without positives: macro AP may count them as 0 or skip them (decisive class: every vocabulary class has a positive); Jaccard of two empty sets may be 0 or 1; clip-level tasks are given clips without sound events (see DESIGN: ClipEvaluation's validator rejects unmatched sound events)"
RULE = (
    "Hypothesis strategy vf.evalgen.detection_inputs specialised per task (one sub-check per task). Non-trivial = at least 3 evaluated items, at least 2 distinct true classes and tie-free scores."
)
ASSUMPTIONS = ["at least one evaluated item overall; single-label tasks: scores of an item sum to at most 1", "sound_event_classification: predictions and annotations refer to the same sound events one-to-one"]

TASKS = ["clip_classification", "clip_multilabel_classification", "sound_event_classification", "sound_event_detection"]


def f10(spec, kind, message):
    """Open-finding classifier F10: a vocabulary of exactly one tag."""
    return len(spec["vocab"]) == 1 and kind == "raised"


KNOWN = {"F10-single-tag-vocabulary": f10}


def make_case(task, big=False):
    @st.composite
    def case(draw):
        if big:
            spec = draw(evalgen.detection_inputs(big_vocab=True, clip_tags=task.startswith("clip_"), same_events=task == "sound_event_classification", max_clips=5))
            if task.startswith("clip_"):
                for c in spec["clips"]:
                    c["anns"], c["preds"] = [], []
        elif task == "clip_classification":
            spec = draw(evalgen.detection_inputs(min_vocab=1, max_vocab=6, clip_tags=True, max_clips=9))
            for c in spec["clips"]:
                c["anns"], c["preds"] = [], []
        elif task == "clip_multilabel_classification":
            spec = draw(evalgen.detection_inputs(min_vocab=1, max_vocab=4, clip_tags=True, multilabel=True, sum_le_one=False, max_clips=9))
            for c in spec["clips"]:
                c["anns"], c["preds"] = [], []
        elif task == "sound_event_classification":
            spec = draw(evalgen.detection_inputs(min_vocab=1, max_vocab=6, same_events=True))
        else:
            spec = draw(evalgen.detection_inputs(min_vocab=1, max_vocab=6))
        spec["task"] = task
        return spec

    return case


# ---- reference metrics (NumPy only) -------------------------------------------------------------


def extend(y_true, scores):
    nv = scores.shape[1]
    yt = np.array([nv if t is None else t for t in y_true], dtype=int)
    sc = np.c_[scores, 1.0 - scores.sum(axis=1, keepdims=True)]
    return yt, sc


def band_accuracy(y_true, scores):
    yt, sc = extend(y_true, scores)
    lo = hi = 0
    for t, row in zip(yt, sc):
        best = row.max()
        if row[t] == best:
            hi += 1
            if (row == best).sum() == 1:
                lo += 1
    n = len(yt)
    return lo / n, hi / n


def band_balanced_accuracy(y_true, scores):
    yt, sc = extend(y_true, scores)
    los, his = [], []
    for c in sorted(set(yt.tolist())):
        rows = sc[yt == c]
        best = rows.max(axis=1)
        tied = rows[:, c] == best
        strict = tied & ((rows == best[:, None]).sum(axis=1) == 1)
        his.append(tied.mean())
        los.append(strict.mean())
    return float(np.mean(los)), float(np.mean(his))


def band_top3(y_true, scores):
    yt, sc = extend(y_true, scores)
    if sc.shape[1] <= 3:
        return 1.0, 1.0
    lo = hi = 0
    for t, row in zip(yt, sc):
        greater = (row > row[t]).sum()
        geq = (row >= row[t]).sum() - 1
        if greater < 3:
            hi += 1
        if geq < 3:
            lo += 1
    return lo / len(yt), hi / len(yt)


def average_precision_1d(y, s):
    """uninterpolated AP with tied scores grouped; None if there is no positive"""
    y = np.asarray(y, dtype=float)
    s = np.asarray(s, dtype=float)
    P = y.sum()
    if P == 0:
        return None
    ap, prev_r = 0.0, 0.0
    for t in sorted(set(s.tolist()), reverse=True):
        sel = s >= t
        tp = y[sel].sum()
        r, p = tp / P, tp / sel.sum()
        ap += (r - prev_r) * p
        prev_r = r
    return float(ap)


def macro_ap_conventions(Y, S):
    """(value with empty classes counted as 0, value skipping them, all_have_positives)"""
    aps = [average_precision_1d(Y[:, c], S[:, c]) for c in range(Y.shape[1])]
    present = [a for a in aps if a is not None]
    zero = float(np.mean([a if a is not None else 0.0 for a in aps])) if aps else None
    skip = float(np.mean(present)) if present else None
    return zero, skip, len(present) == len(aps)


def features(fs):
    return [(f.term.label, float(f.value)) for f in fs]


def check_distinct(ctx, spec, fs, where):
    labels = [f.term.label for f in fs]
    names = [f.term.name for f in fs]
    if len(set(labels)) != len(labels) or len(set(names)) != len(names):
        ctx.fail(f"{where}: metric terms are not pairwise distinct: {labels}", spec, labels, None, kind="duplicate_terms")


def expect_either(ctx, spec, fs, label, values, where, tol=1e-6):
    """the metric must equal one of the admissible conventions (not merely lie between them)"""
    vals = [v for l, v in features(fs) if l == label]
    if len(vals) != 1:
        ctx.fail(f"{where}: expected exactly one metric termed '{label}', found {len(vals)}", spec, [l for l, _ in features(fs)], label, kind="metric_missing")
        return
    if not any(abs(vals[0] - x) <= tol for x in values):
        ctx.fail(f"{where}: metric '{label}' is {vals[0]}, the independently computed value is {sorted(set(values))} (classes without positives counted as 0 / skipped)", spec, vals[0], sorted(set(values)), kind="metric_value")


def expect_band(ctx, spec, fs, label, band, where, tol=1e-9):
    vals = [v for l, v in features(fs) if l == label]
    if len(vals) != 1:
        ctx.fail(f"{where}: expected exactly one metric termed '{label}', found {len(vals)} (terms {[l for l, _ in features(fs)]})", spec, [l for l, _ in features(fs)], label, kind="metric_missing")
        return
    lo, hi = band
    if not (lo - tol <= vals[0] <= hi + tol):
        ctx.fail(f"{where}: metric '{label}' is {vals[0]}, the independently computed value is {lo if lo == hi else [lo, hi]}", spec, vals[0], [lo, hi], kind="metric_value")


_PROBES = {}


def _probe_specs():
    """Small fixed inputs, one per task, with the awkward corners in them: a multilabel clip without any true label and without a score
    above one half, a detection clip with a missed and a spurious event, a sound-event clip without events."""
    v3 = [["species", "a"], ["species", "b"], ["species", "c"]]

    def box(a):
        return {"type": "BoundingBox", "coordinates": [a, 1000.0, a + 1.0, 2000.0]}

    det = {"vocab": v3, "order": [0, 1], "clips": [
        {"side": "both", "separate_clip": None, "anns": [{"geometry": box(0.0), "tags": [0]}, {"geometry": box(5.0), "tags": [1]}],
         "preds": [{"geometry": box(0.25), "tags": [[0, 0.75], [1, 0.25]], "conf": 0.5}, {"geometry": box(9.0), "tags": [[2, 0.5]], "conf": 0.5}]},
        {"side": "both", "separate_clip": None, "anns": [{"geometry": box(1.0), "tags": [2]}], "preds": [{"geometry": box(1.0), "tags": [[2, 1.0]], "conf": 0.5}]}]}
    sec = {"vocab": v3, "order": [0, 1], "clips": [
        {"side": "both", "separate_clip": None, "anns": [{"geometry": box(0.0), "tags": [0]}, {"geometry": box(5.0), "tags": [1]}],
         "preds": [{"geometry": box(0.0), "tags": [[0, 0.75]], "same_as": 0, "conf": 0.5}, {"geometry": box(5.0), "tags": [[0, 0.5], [1, 0.25]], "same_as": 1, "conf": 0.5}]},
        {"side": "both", "separate_clip": None, "anns": [], "preds": []}]}
    clf = {"vocab": v3, "order": [0, 1, 2], "clips": [
        {"side": "both", "separate_clip": None, "anns": [], "preds": [], "true_tags": [0], "pred_tags": [[0, 0.5], [1, 0.25]]},
        {"side": "both", "separate_clip": None, "anns": [], "preds": [], "true_tags": [1], "pred_tags": [[0, 0.75]]},
        {"side": "both", "separate_clip": None, "anns": [], "preds": [], "true_tags": [], "pred_tags": [[2, 0.25]]}]}
    ml = {"vocab": v3, "order": [0, 1, 2], "clips": [
        {"side": "both", "separate_clip": None, "anns": [], "preds": [], "true_tags": [0, 1], "pred_tags": [[0, 0.75], [1, 0.25]]},
        {"side": "both", "separate_clip": None, "anns": [], "preds": [], "true_tags": [], "pred_tags": [[2, 0.25]]},
        {"side": "both", "separate_clip": None, "anns": [], "preds": [], "true_tags": [2], "pred_tags": [[2, 1.0]]}]}
    # "poison": inputs on which a task legitimately gives up (no evaluated item carries a class of the vocabulary) - whatever it does
    # there, it must not change what later calls return
    nolabel = {"vocab": [["other", "x"], ["other", "y"]], "order": [0], "clips": [
        {"side": "both", "separate_clip": None, "anns": [{"geometry": box(0.0), "tags": [-1]}], "preds": [{"geometry": box(0.0), "tags": [[-1, 0.5]], "conf": 0.5}]}]}
    return {"sound_event_detection": det, "sound_event_classification": sec, "clip_classification": clf, "clip_multilabel_classification": ml}, nolabel


def _signature(ev):
    return (ev.score, sorted((f.term.label, round(float(f.value), 12)) for f in ev.metrics), [(ce.score, sorted((f.term.label, round(float(f.value), 12)) for f in ce.metrics)) for ce in ev.clip_evaluations])


def _probe_other_tasks(ctx, spec, evaluation):
    """State must not travel from one evaluation to the next (warnings filters, module-level metric tables, encoders): after the
    evaluation of this case - and after a call on inputs a task gives up on - every task still answers the fixed probe inputs as it did
    when the process was fresh."""
    specs, nolabel = _probe_specs()
    if not _PROBES:
        for t, ps in specs.items():
            cps, cas, vocab, _ = evalgen.build(ps)
            _PROBES[t] = _signature(getattr(evaluation, t)(cps, cas, vocab))
    n = _PROBES.setdefault("_count", 0)
    _PROBES["_count"] = n + 1
    if n % 3 == 0:
        cps, cas, vocab, _ = evalgen.build(nolabel)
        for t in TASKS:
            try:
                getattr(evaluation, t)(cps, cas, vocab)
            except Exception:
                pass
    t = TASKS[n % 4]
    cps, cas, vocab, _ = evalgen.build(specs[t])
    try:
        got = _signature(getattr(evaluation, t)(cps, cas, vocab))
    except Exception as e:
        ctx.fail(f"after other evaluations in the same process {t} raised {type(e).__name__}: {str(e)[:150]} on an input it evaluated before", spec, repr(e)[:200], None, kind="state_between_evaluations")
        return
    if got != _PROBES[t]:
        ctx.fail(f"after other evaluations in the same process {t} gives another result for the same input: {got[:2]} instead of {_PROBES[t][:2]}", spec, got, _PROBES[t], kind="state_between_evaluations")


def _same_score(x, y):
    if x is None or y is None:
        return x is None and y is None
    return x == y or (x != x and y != y)


def spec_hash_small(spec):
    import json, zlib

    return zlib.crc32(json.dumps(spec, sort_keys=True, default=str).encode())


def check(spec, ctx):
    from soundevent import evaluation, io

    task = spec["task"]
    if task not in TASKS or len({tuple(v) for v in spec["vocab"]}) != len(spec["vocab"]) or not spec["vocab"] or sorted(spec["order"]) != list(range(len(spec["clips"]))):
        raise ValueError("malformed spec")
    for c in spec["clips"]:
        if c["side"] not in ("both", "ann", "pred"):
            raise ValueError("malformed spec")
        if task == "sound_event_classification" and sorted(p.get("same_as", -1) for p in c["preds"]) != list(range(len(c["anns"]))):
            raise ValueError("malformed spec (predictions and annotations must refer to the same sound events one-to-one)")
    fn = getattr(evaluation, task)
    cps, cas, vocab, index = evalgen.build(spec)
    nv = len(vocab)
    both = [i for i, c in enumerate(spec["clips"]) if c["side"] == "both"]
    clip_level = task.startswith("clip_")
    # evaluated items in reference order-free form
    if clip_level:
        items = [(ci, None) for ci in both]
    elif task == "sound_event_classification":
        items = [(ci, k) for ci in both for k in range(len(spec["clips"][ci]["preds"]))]
    else:
        items = [(ci, k) for ci in both for k in range(len(spec["clips"][ci]["anns"]) + len(spec["clips"][ci]["preds"]))]
    if not items:
        ctx.case(spec, nontrivial=False, labels=[task, "no_items_skipped"])
        return
    if task == "sound_event_detection" and not any(evalgen.first_in_vocab(a["tags"]) is not None for ci in both for a in spec["clips"][ci]["anns"]):
        ctx.case(spec, nontrivial=False, labels=[task, "no_labelled_item_skipped"])
        return
    with warnings.catch_warnings():
        warnings.simplefilter("ignore")
        try:
            from vf.core import snapshot

            before = snapshot((cps, cas, vocab))
            ev = ctx.call(spec, f"{task}(|vocabulary|={nv})", fn, cps, cas, vocab)
            ctx.unchanged(spec, f"{task}: clip predictions / clip annotations / tags", before, (cps, cas, vocab))
            _probe_other_tasks(ctx, spec, evaluation)
        except Exception:
            ctx.case(spec, nontrivial=False, labels=[task, f"|V|={min(nv, 3)}", "raised"])
            raise
    if ev.evaluation_task != task:
        ctx.fail(f"evaluation_task {ev.evaluation_task!r}", spec, ev.evaluation_task, task, kind="task")
    by_clip = {index["clips"][str(ce.annotations.clip.uuid)]: ce for ce in ev.clip_evaluations}
    if sorted(by_clip) != sorted(both) or len(ev.clip_evaluations) != len(both):
        ctx.fail(f"evaluated clips {sorted(by_clip)} != clips in both inputs {sorted(both)}", spec, sorted(by_clip), sorted(both), kind="clip_set")

    check_distinct(ctx, spec, ev.metrics, "evaluation")
    for ce in ev.clip_evaluations:
        check_distinct(ctx, spec, ce.metrics, "clip evaluation")
        for m in ce.matches:
            check_distinct(ctx, spec, m.metrics, "match")

    y_true, rows, clip_scores = [], [], {}
    tie_free = True
    if task == "clip_classification":
        for ci in both:
            c = spec["clips"][ci]
            t = evalgen.first_in_vocab(c["true_tags"])
            vec = evalgen.score_vector(c["pred_tags"], nv)
            y_true.append(t)
            rows.append(vec)
            tcp = float(vec[t]) if t is not None else 1.0 - float(vec.sum())
            ce = by_clip[ci]
            expect_band(ctx, spec, ce.metrics, "True Class Probability", (tcp, tcp), f"clip {ci}", tol=1e-6)
            if ce.score is None or abs(ce.score - tcp) > 1e-6:
                ctx.fail(f"clip {ci}: score {ce.score}, probability of the true class is {tcp}", spec, ce.score, tcp, kind="clip_score")
            clip_scores[ci] = ce.score
    elif task == "clip_multilabel_classification":
        Y = np.zeros((len(both), nv))
        S = np.zeros((len(both), nv))
        for r, ci in enumerate(both):
            c = spec["clips"][ci]
            for t in c["true_tags"]:
                if t >= 0:
                    Y[r, t] = 1
            S[r] = evalgen.score_vector(c["pred_tags"], nv)
            ce = by_clip[ci]
            ap = average_precision_1d(Y[r], S[r])
            if ap is not None:
                expect_band(ctx, spec, ce.metrics, "Average Precision", (ap, ap), f"clip {ci}", tol=1e-6)
            pred = S[r] > 0.5
            union = np.logical_or(pred, Y[r] > 0).sum()
            jac = (np.logical_and(pred, Y[r] > 0).sum() / union) if union else None
            expect_band(ctx, spec, ce.metrics, "Jaccard Index", (jac, jac) if jac is not None else (0.0, 1.0), f"clip {ci}", tol=1e-6)
            if ce.score is not None and not (0 <= ce.score <= 1):
                ctx.fail(f"clip {ci}: score {ce.score} outside [0,1]", spec, ce.score, None, kind="clip_score")
            clip_scores[ci] = ce.score
        zero, skip, full = macro_ap_conventions(Y, S)
        if skip is not None:
            expect_either(ctx, spec, ev.metrics, "Mean Average Precision", [zero, skip], "evaluation (macro over vocabulary classes)")
            ctx.label("map_decisive" if full else "map_convention_band")
        tie_free = skip is not None
        y_true = [tuple(r) for r in Y.tolist()]
    else:
        for ci in both:
            c = spec["clips"][ci]
            ce = by_clip[ci]
            mscores = []
            for m in ce.matches:
                a = index["ann"].get(str(m.target.uuid)) if m.target is not None else None
                p = index["pred"].get(str(m.source.uuid)) if m.source is not None else None
                t = evalgen.first_in_vocab(c["anns"][a[1]]["tags"]) if a is not None else None
                vec = evalgen.score_vector(c["preds"][p[1]]["tags"], nv) if p is not None else np.zeros(nv)
                y_true.append(t)
                rows.append(vec)
                mscores.append(m.score)
                if a is not None and p is not None:
                    tcp = float(vec[t]) if t is not None else 1.0 - float(vec.sum())
                    expect_band(ctx, spec, m.metrics, "True Class Probability", (tcp, tcp), f"clip {ci} match", tol=1e-6)
                    if m.score is None or abs(m.score - tcp) > 1e-6:
                        ctx.fail(f"clip {ci}: match score {m.score}, probability of the true class is {tcp}", spec, m.score, tcp, kind="match_score")
            if mscores:
                exp = float(np.mean([s or 0.0 for s in mscores]))
                if ce.score is None or abs(ce.score - exp) > 1e-9:
                    ctx.fail(f"clip {ci}: score {ce.score}, mean of its match scores is {exp}", spec, ce.score, exp, kind="clip_score")
            elif ce.score is not None and not (0 <= ce.score <= 1):
                ctx.fail(f"clip {ci} without matches: score {ce.score}", spec, ce.score, "None or in [0,1]", kind="clip_score")
            clip_scores[ci] = ce.score
            if task == "sound_event_classification" and len(ce.matches) != len(c["preds"]):
                ctx.fail(f"clip {ci}: {len(ce.matches)} matches for {len(c['preds'])} sound events", spec, len(ce.matches), len(c["preds"]), kind="cover")
    if task != "clip_multilabel_classification":
        S = np.array(rows).reshape(len(rows), nv)
        for label, bandfn in (("Accuracy", band_accuracy), ("Balanced Accuracy", band_balanced_accuracy), ("Top 3 Accuracy", band_top3)):
            lo, hi = bandfn(y_true, S)
            if lo != hi:
                tie_free = False
            expect_band(ctx, spec, ev.metrics, label, (lo, hi), "evaluation", tol=1e-9)
        if task == "sound_event_detection":
            lab = [i for i, t in enumerate(y_true) if t is not None]
            Y = np.zeros((len(lab), nv))
            for r, i in enumerate(lab):
                Y[r, y_true[i]] = 1
            zero, skip, full = macro_ap_conventions(Y, S[lab])
            expect_either(ctx, spec, ev.metrics, "Mean Average Precision", [zero, skip], "evaluation (labelled items only)")
            ctx.label("map_decisive" if full else "map_convention_band")
    # evaluation score = mean of the non-null clip scores
    valid = [s for s in clip_scores.values() if s is not None]
    exp = float(np.mean(valid)) if valid else None
    if exp is not None and (ev.score is None or abs(ev.score - exp) > 1e-9):
        ctx.fail(f"evaluation score {ev.score}, mean of the non-null clip scores is {exp}", spec, ev.score, exp, kind="overall_score")

    classes = {t for t in y_true}
    ctx.case(spec, nontrivial=len(items) >= 3 and len(classes) >= 2 and tie_free, labels=[task, f"|V|={min(nv, 3)}{'+' if nv > 3 else ''}", "tie_free" if tie_free else "ties", f"items>={min(len(items), 3)}"], out={"metrics": features(ev.metrics), "score": ev.score})

    # clip order invariance
    with warnings.catch_warnings():
        warnings.simplefilter("ignore")
        cps2, cas2, vocab2, _ = evalgen.build(spec, order=spec["order"])
        ev2 = ctx.call(spec, f"{task} (clips permuted)", fn, cps2[::-1], cas2, vocab2)
    a, b = dict(features(ev.metrics)), dict(features(ev2.metrics))
    if set(a) != set(b) or any(abs(a[k] - b[k]) > 1e-12 for k in a if not (np.isnan(a[k]) and np.isnan(b[k]))):
        ctx.fail(f"evaluation metrics depend on the order of the clips: {a} vs {b}", spec, a, b, kind="order_dependence")
    if (ev.score is None) != (ev2.score is None) or (ev.score is not None and abs(ev.score - ev2.score) > 1e-12):
        ctx.fail(f"evaluation score depends on the order of the clips: {ev.score} vs {ev2.score}", spec, ev.score, ev2.score, kind="order_dependence")

    # the inputs are declared as Sequence: a user's own sequence type and a deque are sequences too
    import collections as _c
    from vf.core import SeqView

    S1, S2, S3 = ((SeqView, _c.deque, tuple), (_c.deque, tuple, SeqView), (tuple, SeqView, _c.deque))[spec_hash_small(spec) % 3]
    with warnings.catch_warnings():
        warnings.simplefilter("ignore")
        ev3 = ctx.call(spec, f"{task} ({S1.__name__}, {S2.__name__}, {S3.__name__} inputs)", fn, S1(cps), S2(cas), S3(vocab))
    c = dict(features(ev3.metrics))
    if set(a) != set(c) or any(a[k] != c[k] for k in a if not (np.isnan(a[k]) and np.isnan(c[k]))) or not _same_score(ev3.score, ev.score):
        ctx.fail(f"{task} on ({S1.__name__}, {S2.__name__}, {S3.__name__}) inputs differs from the call on lists: {c} / {ev3.score} vs {a} / {ev.score}", spec, c, a, kind="sequence_inputs")

    # two evaluations running in two threads: this one is suspended at lines inside the library while the other thread runs the same
    # task on the clips in reverse order against the reversed vocabulary (without its first class when there are more than two)
    def digest(e):
        return repr((e.score, sorted(features(e.metrics), key=repr), [(c.score, sorted(features(c.metrics), key=repr), len(c.matches)) for c in e.clip_evaluations]))

    vocab_b = (list(vocab)[1:] if len(vocab) > 2 else list(vocab))[::-1]

    def run_b():
        with warnings.catch_warnings():
            warnings.simplefilter("ignore")
            return digest(fn(cps[::-1], cas[::-1], vocab_b))

    with warnings.catch_warnings():
        warnings.simplefilter("ignore")
        ctx.interleave(spec, task, lambda: digest(fn(cps, cas, vocab)), run_b, every=6, max_pauses=14)

    # AOEF round trip keeps every metric
    path = os.path.join(scratch(), "eval09.json")
    ctx.call(spec, "io.save(evaluation)", io.save, ev, path)
    back = ctx.call(spec, "io.load(evaluation)", io.load, path)

    def same(x, y, where):
        fx, fy = sorted(features(x)), sorted(features(y))
        if len(fx) != len(fy) or any(lx != ly or not (vx == vy or (np.isnan(vx) and np.isnan(vy))) for (lx, vx), (ly, vy) in zip(fx, fy)):
            ctx.fail(f"{where}: metrics change through AOEF save/load: {fx} -> {fy}", spec, fx, fy, kind="aoef_metrics")

    same(ev.metrics, back.metrics, "evaluation")
    if (ev.score is None) != (back.score is None) or (ev.score is not None and ev.score != back.score):
        ctx.fail(f"evaluation score changes through AOEF save/load: {ev.score} -> {back.score}", spec, ev.score, back.score, kind="aoef_metrics")
    bmap = {str(ce.uuid): ce for ce in back.clip_evaluations}
    for ce in ev.clip_evaluations:
        bc = bmap.get(str(ce.uuid))
        if bc is None:
            ctx.fail("a clip evaluation is lost through AOEF save/load", spec, None, None, kind="aoef_metrics")
            continue
        same(ce.metrics, bc.metrics, "clip evaluation")
        if ce.score != bc.score:
            ctx.fail(f"clip score changes through AOEF save/load: {ce.score} -> {bc.score}", spec, ce.score, bc.score, kind="aoef_metrics")
        mm = {str(m.uuid): m for m in bc.matches}
        for m in ce.matches:
            bm = mm.get(str(m.uuid))
            if bm is None:
                ctx.fail("a match is lost through AOEF save/load", spec, None, None, kind="aoef_metrics")
                continue
            same(m.metrics, bm.metrics, "match")
            if m.score != bm.score or m.affinity != bm.affinity:
                ctx.fail("match score/affinity changes through AOEF save/load", spec, [m.score, m.affinity], [bm.score, bm.affinity], kind="aoef_metrics")


SUBS = [Sub(f"metrics_{t}", check, strategy=make_case(t), quick=1200, thorough=30000, min_nontrivial=0.02) for t in TASKS] + [
    Sub(f"big_vocabulary_{t}", check, strategy=make_case(t, big=True), quick=160, thorough=3000, min_nontrivial=0.0)
    for t in ("sound_event_detection", "clip_classification", "sound_event_classification")
]
