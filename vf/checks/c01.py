"""C01 - AOEF save/load round trip is lossless for every collection type."""

from __future__ import annotations

import json
import os
import shutil

from hypothesis import strategies as st

from vf.core import Sub
from vf import graphs

PROP = "C01"
TECHNIQUE = "property-based testing: round-trip + fixpoint oracle (deep pydantic equality) over generated object graphs of the 8 collection types, through the public save/load only (fresh adapters per call)"
LEVEL_TEXT = (
    "For each of the eight collection types (enumerated: one sub-check each) Hypothesis builds object graphs from index-linked pools "
    "(shared and distinct sub-objects, every optional field toggled, all nine geometry types and geometry-less events, sequences with parents, "
    "sequence annotations/predictions, matches, badges, notes) and checks type(load(save(x))) is type(x), load(save(x)) == x field by field, "
    "and that 1-3 further cycles are exact fixpoints, with audio directory none / absolute or relative, as str or Path. Exploration."
)
LEVEL_NOTE = "equality oracle = pydantic deep ==; terms are simple-label terms (term_from_key), feature labels distinct within a list, finite floats, uuids unique per object (the stated domain)"
RULE = (
    "Hypothesis composite strategy vf.graphs.collection_spec per collection type x audio-dir mode {none, str, Path} x cycles {1,2,3}. "
    "Non-trivial = the graph has at least one nested object with an optional field set or a sub-object shared by two parents (measured on the spec). "
    "Class counters report sequences with parents, sequence annotations/predictions, matches, licences, geometry-less events, shared sound events."
)
ASSUMPTIONS = [
    "the top-level AOEFObject.created_on (time of writing) is not part of the collection",
    "saving and loading happen in the same process but through soundevent.io.save / soundevent.io.load only",
]

_SCRATCH = {}


def scratch():
    pid = os.getpid()
    if pid not in _SCRATCH:
        here = os.path.dirname(os.path.dirname(os.path.dirname(os.path.abspath(__file__))))
        d = os.path.join(here, "out", "scratch", f"p{pid}")
        shutil.rmtree(d, ignore_errors=True)
        os.makedirs(d, exist_ok=True)
        _SCRATCH[pid] = d
    return _SCRATCH[pid]


def first_diff(a, b, path="$"):
    """Path of the first difference between two dumped structures."""
    if type(a) is not type(b) and not (isinstance(a, (int, float)) and isinstance(b, (int, float))):
        return f"{path}: {type(a).__name__} {str(a)[:60]!r} != {type(b).__name__} {str(b)[:60]!r}"
    if isinstance(a, dict):
        for k in sorted(set(a) | set(b), key=str):
            if k not in a or k not in b:
                return f"{path}.{k}: present only in {'original' if k in a else 'loaded'}"
            d = first_diff(a[k], b[k], f"{path}.{k}")
            if d:
                return d
        return None
    if isinstance(a, (list, tuple)):
        if len(a) != len(b):
            return f"{path}: list length {len(a)} != {len(b)}"
        for i, (x, y) in enumerate(zip(a, b)):
            d = first_diff(x, y, f"{path}[{i}]")
            if d:
                return d
        return None
    if a != b:
        return f"{path}: {str(a)[:80]!r} != {str(b)[:80]!r}"
    return None


def spec_classes(spec):
    labs = []
    top = spec["top"]
    if any(q["parent"] is not None for q in spec.get("sequences", [])):
        labs.append("seq_parent_in_pool")
    if any(c["sequences"] for c in spec.get("clip_annotations", [])):
        labs.append("sequence_annotation_used")
    if any(c["sequences"] for c in spec.get("clip_predictions", [])):
        labs.append("sequence_prediction_used")
    if any(r["license"] is not None for r in spec["recordings"]):
        labs.append("license_set")
    if any(s["geometry"] is None for s in spec.get("sound_events", [])):
        labs.append("geometryless_event")
    if any(ce["matches"] for ce in top.get("clip_evaluations", [])):
        labs.append("matches")
    if any(t["status_badges"] for t in top.get("tasks", [])):
        labs.append("badges")
    if top.get("evaluation_tags") or top.get("annotation_tags"):
        labs.append("collection_tags")
    used = [a["se"] for a in spec.get("se_annotations", [])] + [p["se"] for p in spec.get("se_predictions", [])]
    if len(used) != len(set(used)):
        labs.append("shared_sound_event")
    return labs


OPTIONAL_FIELDS = [
    "Recording.hash", "Recording.date", "Recording.time", "Recording.latitude", "Recording.longitude", "Recording.license", "Recording.rights",
    "Recording.owners", "Recording.tags", "Recording.features", "Recording.notes", "Recording.time_expansion",
    "User.username", "User.email", "User.name", "User.institution", "Note.created_by", "Clip.features", "SoundEvent.features", "SoundEvent.geometry=None",
    "Sequence.parent", "Sequence.features", "SoundEventAnnotation.created_by", "SoundEventAnnotation.notes", "SoundEventAnnotation.tags",
    "SequenceAnnotation.tags", "ClipAnnotation.tags", "ClipAnnotation.notes", "ClipAnnotation.sequences", "ClipPrediction.tags", "ClipPrediction.features",
    "ClipPrediction.sequences", "SoundEventPrediction.tags", "SequencePrediction.tags", "Match.score", "Match.metrics", "ClipEvaluation.score", "ClipEvaluation.metrics",
    "StatusBadge.owner", "top.description", "datetime.tz",
]


def field_labels(spec):
    """which optional fields are set (non-default) somewhere in the spec - reported in the evidence and guarded in post()"""
    out = set()
    top = spec["top"]

    def notes(ns):
        for n in ns:
            if n["created_by"] is not None:
                out.add("Note.created_by")
            if "+" in n["created_on"][10:] or "-" in n["created_on"][10:]:
                out.add("datetime.tz")

    for r in spec["recordings"]:
        for k in ("hash", "date", "time", "latitude", "longitude", "license", "rights"):
            if r[k] is not None:
                out.add("Recording." + k)
        for k in ("owners", "tags", "features", "notes"):
            if r[k]:
                out.add("Recording." + k)
        if r["time_expansion"] != 1.0:
            out.add("Recording.time_expansion")
        notes(r["notes"])
    for u in spec["users"]:
        for k in ("username", "email", "name", "institution"):
            if u[k] is not None:
                out.add("User." + k)
    for c in spec.get("clips", []):
        if c["features"]:
            out.add("Clip.features")
    for e in spec.get("sound_events", []):
        if e["features"]:
            out.add("SoundEvent.features")
        if e["geometry"] is None:
            out.add("SoundEvent.geometry=None")
    for q in spec.get("sequences", []):
        if q["parent"] is not None:
            out.add("Sequence.parent")
        if q["features"]:
            out.add("Sequence.features")
    for a in spec.get("se_annotations", []):
        if a["created_by"] is not None:
            out.add("SoundEventAnnotation.created_by")
        if a["notes"]:
            out.add("SoundEventAnnotation.notes")
        if a["tags"]:
            out.add("SoundEventAnnotation.tags")
        notes(a["notes"])
    for a in spec.get("seq_annotations", []):
        if a["tags"]:
            out.add("SequenceAnnotation.tags")
    for c in spec.get("clip_annotations", []):
        for k in ("tags", "notes", "sequences"):
            if c[k]:
                out.add("ClipAnnotation." + k)
    for c in spec.get("clip_predictions", []):
        for k in ("tags", "features", "sequences"):
            if c[k]:
                out.add("ClipPrediction." + k)
    for p in spec.get("se_predictions", []):
        if p["tags"]:
            out.add("SoundEventPrediction.tags")
    for p in spec.get("seq_predictions", []):
        if p["tags"]:
            out.add("SequencePrediction.tags")
    for ce in top.get("clip_evaluations", []):
        if ce["score"] is not None:
            out.add("ClipEvaluation.score")
        if ce["metrics"]:
            out.add("ClipEvaluation.metrics")
        for m in ce["matches"]:
            if m["score"] is not None:
                out.add("Match.score")
            if m["metrics"]:
                out.add("Match.metrics")
    for t in top.get("tasks", []):
        for b in t["status_badges"]:
            if b["owner"] is not None:
                out.add("StatusBadge.owner")
    if top.get("description") is not None:
        out.add("top.description")
    return ["field:" + f for f in sorted(out)]


def post(tier, seed, failures, labels):
    """Vacuity guard (harness error, never a verdict): every optional field must be set in some generated case."""
    if failures:
        return {}
    seen = {k.split(":", 2)[2] for k in labels if ":field:" in k}
    missing = [f for f in OPTIONAL_FIELDS if f not in seen]
    if missing:
        raise RuntimeError(f"generator never set optional field(s) {missing}")
    return {"optional_fields_exercised": len(seen)}


def nontrivial(spec):
    if spec_classes(spec):
        return True
    return any(r["notes"] or r["tags"] or r["owners"] or r["features"] or r["hash"] for r in spec["recordings"])


def make_case(ctype):
    @st.composite
    def case(draw):
        spec = draw(graphs.collection_spec(ctype=ctype, paths="dotdot"))
        spec["audio"] = draw(st.sampled_from(["none", "none", "str", "path", "relstr", "relpath", "fspath", "relfspath"]))
        spec["cycles"] = draw(st.sampled_from([1, 1, 2, 3]))
        spec["typed_load"] = draw(st.booleans())
        return spec

    return case


class _BarePathLike:
    def __init__(self, p):
        self._p = os.fspath(p)

    def __fspath__(self):
        return self._p


def save_load(spec, ctx, obj, audio, path):
    from soundevent import io

    kw = {}
    if spec["audio"] in ("str", "relstr"):
        kw["audio_dir"] = str(audio)
    elif spec["audio"] in ("path", "relpath"):
        kw["audio_dir"] = audio
    elif spec["audio"] in ("fspath", "relfspath"):
        kw["audio_dir"] = _BarePathLike(audio)  # an os.PathLike that is neither str nor pathlib (os.DirEntry is one): only __fspath__ says where it is
    import time

    # the file is written in one local time zone and read in another (a laptop in the field, a server at home): naive timestamps
    # are wall-clock values and aware ones are instants - neither changes with the zone of the reading process
    import zlib

    pick = zlib.crc32(json.dumps(spec["top"], sort_keys=True, default=str).encode())  # a deterministic function of the spec
    zones = {1: ("Pacific/Auckland", "America/Lima"), 2: ("UTC", "Asia/Kolkata")}.get(pick % 5)
    old_tz = os.environ.get("TZ")
    try:
        if zones:
            os.environ["TZ"] = zones[0]
            time.tzset()
        # the format keyword: left out, named, or None ("inferred from the file") - always the same AOEF document
        fsel = (pick // 5) % 4
        skw = dict(kw, **({"format": "aoef"} if fsel == 1 else {}))
        ctx.call(spec, f"io.save({spec['ctype']})", io.save, obj, path, **skw)
        lkw = dict(kw, **({"format": "aoef"} if fsel == 2 else ({"format": None} if fsel == 3 else {})))
        if spec.get("typed_load"):
            # a string that arrives at run time (read from a config, split from a list) is equal to the literal, not identical to it
            lkw["type"] = "".join(list(spec["ctype"])) if pick % 2 else spec["ctype"]
        if zones:
            os.environ["TZ"] = zones[1]
            time.tzset()
        return ctx.call(spec, f"io.load({spec['ctype']})", io.load, path, **lkw)
    finally:
        if zones:
            if old_tz is None:
                os.environ.pop("TZ", None)
            else:
                os.environ["TZ"] = old_tz
            time.tzset()


def check(spec, ctx):
    from pathlib import Path

    d = scratch()
    audio = Path(d) / "audio dir"
    if spec["audio"].startswith("rel"):
        audio = Path("rel audio") / "dir"  # a relative audio directory (never touched on disk: only path arithmetic)
    obj, _ = graphs.build(spec, audio_root=audio if spec["audio"] != "none" else None)
    # the document's file name: plain, with a version or a date or a second extension in front of .json, with a blank
    import zlib as _zlib

    path = os.path.join(d, ["doc.json", "doc.json", "doc.v1.2.json", "2024-05-01.dataset.json", "run.aoef.json", "doc 01.json", ".hidden.json"][_zlib.crc32(json.dumps(spec["top"], sort_keys=True, default=str).encode()) // 7 % 7])
    ctx.case(spec, nontrivial=nontrivial(spec), labels=[spec["ctype"], f"audio={spec['audio']}", f"cycles={spec['cycles']}"] + spec_classes(spec) + field_labels(spec))
    cur = obj
    for cycle in range(1, spec["cycles"] + 1):
        loaded = save_load(spec, ctx, cur, audio, path)
        if type(loaded) is not type(cur):
            ctx.fail(f"cycle {cycle}: loaded a {type(loaded).__name__}, saved a {type(cur).__name__}", spec, type(loaded).__name__, type(cur).__name__, kind="type")
        if loaded != cur:
            diff = first_diff(cur.model_dump(mode="python"), loaded.model_dump(mode="python")) or "objects differ (no dump difference: class of a nested object changed)"
            what = "round trip loses information" if cycle == 1 else f"cycle {cycle} is not a fixpoint"
            ctx.fail(f"{spec['ctype']}: {what}: {diff}", spec, None, None, kind="lossy" if cycle == 1 else "fixpoint")
        cur = loaded
    # two threads loading at once: this load is suspended at lines inside the library while another thread loads the same file from
    # start to end; each gets the collection that was saved
    from soundevent import io

    lkw = {}
    if spec["audio"] != "none":
        lkw["audio_dir"] = str(audio)
    ctx.interleave(spec, f"io.load({spec['ctype']})", lambda: io.load(path, **lkw), lambda: io.load(path, **lkw), same=lambda x, y: type(x) is type(y) and x == y, every=3, max_pauses=40)


SUBS = [
    Sub(f"roundtrip_{ct}", check, strategy=make_case(ct), quick=300, thorough=12000, min_nontrivial=0.3)
    for ct in graphs.CTYPES
]
