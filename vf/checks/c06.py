"""C06 - affinity is a symmetric intersection-over-union in [0, 1]."""

from __future__ import annotations

import math

from hypothesis import strategies as st

from vf.core import Sub
from vf.oracles.shp import shift_spec_time, to_shp
from vf.strategies import ALL_KINDS, MAXF, T_SCALES, F_SCALES, geom_dict, geometry_spec, leaves, ref_bounds

PROP = "C06"
TECHNIQUE = "property-based testing: metamorphic relations (range, symmetry, self, disjointness, time shift) + closed-form oracles (box IoU, 1-D IoU band) + differential IoU of independently buffered shapes, over all 81 ordered type pairs"
LEVEL_TEXT = (
    "compute_affinity is run on generated ordered pairs covering all 81 type combinations with placements {identical, shifted copy, "
    "independent in the same frame} and buffer pairs scaled to the frame; seven oracles are evaluated per case (range exactly [0,1], "
    "symmetry 1e-9, self-affinity, time-disjoint => 0, closed-form box IoU, 1-D IoU band for time-only geometries, time-shift invariance, "
    "and IoU of shapes buffered through the public buffer_geometry). A second call with other buffers on the same objects exposes hidden state. Exploration."
)
LEVEL_NOTE = "trusts shapely area/intersection (in pair-local coordinates) as an observer for the differential IoU; round caps may fall short by cos(pi/32) (1-D band oracle); where a buffered geometry has coordinates >= 1e6 unit buffers (the region of C11 finding F16, about 10% of the time-only cases) the ideal-extent band is replaced by the 1-D IoU of the extents of the geometries buffered through the public buffer_geometry, and the disjointness oracle gets a slack of 1e-2 buffers"
RULE = (
    "Hypothesis: ordered pair (kind1, kind2) drawn uniformly from the 81 combinations; both geometries valid, lines monotone in time "
    "(non-self-intersecting), built in one shared frame (time scale x frequency scale) so overlaps are common; placement in {identical, "
    "time-shifted copy, independent}; time/frequency buffers = frame scale x {2^-6, 2^-3, 1} (strictly positive, as the property requires "
    "for 0-/1-dimensional types) or 0 when both geometries have area; second buffer pair; time shift on the grid. Non-trivial = 0 < affinity < 1, "
    "or an identical pair (range check at the upper end)."
)
ASSUMPTIONS = [
    "polygons are shapely-valid and lines are simple (the property's stated domain)",
    "strictly positive buffers whenever a point/line/time-stamp type is involved",
]
EXHAUSTIVE = False

TIME_KINDS = ("TimeStamp", "TimeInterval")
BUFFERED = ("TimeStamp", "Point", "MultiPoint", "LineString", "MultiLineString")
THETA = math.cos(math.pi / 32)
# |affinity(a, b) - affinity(b, a)| on correct code is rounding noise of an area ratio: measured <= 4e-13 over 180 000 generated pairs
# (mostly exactly 0), whereas order dependence through GEOS snap-rounding (finding F25) shows up as 1e-10 .. 1e-2
SYM_TOL = 1e-9
PAIRS = [(a, b) for a in ALL_KINDS for b in ALL_KINDS]


@st.composite
def case(draw):
    k1, k2 = draw(st.sampled_from(PAIRS))
    ts = draw(st.sampled_from(T_SCALES))
    fs = draw(st.sampled_from(F_SCALES))
    t_off = ts * draw(st.sampled_from([0.0, 0.5, 3.0, 8.0]))
    flip = draw(st.integers(0, 3)) == 0
    f_off = 0.0 if flip else fs * draw(st.sampled_from([0.0, 0.5]))
    frame = {"ts": ts, "fs": fs, "t_off": t_off, "f_off": f_off, "flip": flip}
    kw = dict(simple_lines=True, allow_degenerate=False, frame=frame)
    # boxes and intervals of zero duration / zero bandwidth are valid geometries without area: they are not buffered, and what they share
    # with anything has no area either
    g1 = draw(geometry_spec(kinds=[k1], **dict(kw, allow_degenerate=k1 in ("BoundingBox", "TimeInterval"))))
    placement = draw(st.sampled_from(["identical", "shifted", "independent", "independent"])) if k1 == k2 else "independent"
    if placement == "independent":
        g2 = draw(geometry_spec(kinds=[k2], **dict(kw, allow_degenerate=k2 in ("BoundingBox", "TimeInterval"))))
    elif placement == "identical":
        g2 = {"type": g1["type"], "coordinates": g1["coordinates"], "meta": g1["meta"]}
    else:
        d = ts * draw(st.integers(1, 128)) / 64
        g2 = {"type": g1["type"], "coordinates": shift_spec_time(g1["type"], g1["coordinates"], d), "meta": g1["meta"]}
        from vf.checks.c03 import ref_valid

        if not ref_valid(g2["type"], g2["coordinates"]):
            # adding d can merge two nearly equal free-float times (a line of a multi-line must end strictly later than it starts):
            # the shifted copy is then no geometry at all, and the pair falls back to the identical placement
            g2, placement = {"type": g1["type"], "coordinates": g1["coordinates"], "meta": g1["meta"]}, "identical"
    need_pos = k1 in BUFFERED or k2 in BUFFERED
    mult = [2.0**-6, 2.0**-3, 1.0]
    zero_ok = [] if need_pos else [0.0, 0.0]
    tb = draw(st.sampled_from(zero_ok + [ts * m for m in mult]))
    fb = draw(st.sampled_from(zero_ok + [fs * m for m in mult]))
    tb2 = draw(st.sampled_from([ts * m for m in mult]))
    fb2 = draw(st.sampled_from([fs * m for m in mult]))
    dt = ts * draw(st.integers(1, 256)) / 16
    def as_int(x):
        return int(x) if (float(x).is_integer() and draw(st.booleans())) else x

    return {"g1": g1, "g2": g2, "tb": as_int(tb), "fb": as_int(fb), "tb2": as_int(tb2), "fb2": as_int(fb2), "dt": dt, "placement": placement}


@st.composite
def near_case(draw):
    """Directed at finding F25: narrow line bundles far from the origin (frequencies near 5 MHz, times up to an hour) whose buffered
    outlines are nearly coincident (a copy with an extra vertex, one vertex moved by 1/64 unit, the same line split in two, the same
    line plus another one).  Near-coincident edges are where GEOS leaves exact noding for snap-rounding."""
    ts = draw(st.sampled_from([2.0**-16, 2.0**-10, 2.0**-3, 1.0]))
    fs = draw(st.sampled_from([2.0**-6, 1.0, 128.0]))
    F0 = draw(st.sampled_from([float(MAXF), float(MAXF), 4e6, 250000.0, 20000.0]))
    T0 = draw(st.sampled_from([0.0, 0.0, 100.0, 3600.0]))

    def clampf(f):
        return max(0.0, min(float(MAXF), f))

    def line():
        times = sorted(draw(st.lists(st.integers(0, 64), min_size=2, max_size=4, unique=True)))
        return [[T0 + ts * t, clampf(F0 - fs * draw(st.integers(0, 4)))] for t in times]

    l1 = line()
    mode = draw(st.sampled_from(["extra", "move", "split", "same+line"]))
    if mode == "split" and len(l1) < 3:
        mode = "extra"
    if mode == "extra":
        i = draw(st.integers(0, len(l1) - 2))
        a, b = l1[i], l1[i + 1]
        mid = [(a[0] + b[0]) / 2, clampf((a[1] + b[1]) / 2 + draw(st.sampled_from([0.0, 0.0, fs / 64, -fs / 64])))]
        c1, c2, k1, k2 = l1, l1[: i + 1] + [mid] + l1[i + 1 :], "LineString", "LineString"
    elif mode == "move":
        l2 = [list(q) for q in l1]
        j = draw(st.integers(0, len(l2) - 1))
        l2[j][1] = clampf(l2[j][1] + draw(st.sampled_from([fs / 64, -fs / 64, fs / 4])))
        c1, c2, k1, k2 = l1, l2, "LineString", "LineString"
    elif mode == "split":
        k = draw(st.integers(1, len(l1) - 2))
        c1, c2, k1, k2 = l1, [l1[: k + 1], l1[k:]], "LineString", "MultiLineString"
    else:
        c1, c2, k1, k2 = [l1], [line(), l1], "MultiLineString", "MultiLineString"
    meta = {"ts": ts, "fs": fs, "t_off": T0, "f_off": F0, "flip": False, "free": False, "deg": None}
    g1, g2 = {"type": k1, "coordinates": c1, "meta": meta}, {"type": k2, "coordinates": c2, "meta": meta}
    if draw(st.booleans()):
        g1, g2 = g2, g1
    mult = [2.0**-6, 2.0**-3, 1.0]
    return {
        "g1": g1, "g2": g2, "tb": ts * draw(st.sampled_from(mult)), "fb": fs * draw(st.sampled_from(mult)),
        "tb2": ts * draw(st.sampled_from(mult)), "fb2": fs * draw(st.sampled_from(mult)), "dt": ts * draw(st.integers(1, 256)) / 16, "placement": "near:" + mode,
    }


def buffered_time_extent(kind, b, tb, theta=1.0):
    if kind in BUFFERED:
        return (max(b[0] - theta * tb, 0.0), b[2] + theta * tb)
    return (b[0], b[2])


def iou_1d(a, b):
    inter = max(0.0, min(a[1], b[1]) - max(a[0], b[0]))
    union = (a[1] - a[0]) + (b[1] - b[0]) - inter
    return 0.0 if union == 0 else inter / union


def time_only_band(k1, b1, k2, b2, tb):
    """[lo, hi] of the 1-D IoU when round-capped extents may fall short of the buffer by cos(pi/32)."""
    def candidates(kind, b, other):
        if kind in BUFFERED and kind != "TimeStamp":
            lo_c = {max(b[0] - tb, 0.0), max(b[0] - THETA * tb, 0.0)}
            hi_c = {b[2] + tb, b[2] + THETA * tb}
            if min(lo_c) <= other[0] <= max(lo_c):
                lo_c.add(other[0])
            if min(hi_c) <= other[1] <= max(hi_c):
                hi_c.add(other[1])
            return [(x, y) for x in lo_c for y in hi_c]
        return [buffered_time_extent(kind, b, tb)]

    e1n, e2n = buffered_time_extent(k1, b1, tb), buffered_time_extent(k2, b2, tb)
    vals = [iou_1d(x, y) for x in candidates(k1, b1, e2n) for y in candidates(k2, b2, e1n)]
    return min(vals), max(vals)


def ref_iou(s1, s2):
    """Reference IoU of two shapely shapes, computed in coordinates local to the pair (translated to the joint lower-left
    corner and scaled to the joint bounding box; IoU is invariant under such maps).  GEOS falls back to snap-rounding with a
    tolerance proportional to the largest ordinate when exact noding fails, so overlaying 0.03 Hz-wide shapes at 5 MHz directly is
    off by 1e-3 and depends on the operand order (finding F25); in local coordinates that tolerance is 1e-12 of the box."""
    from shapely import affinity as A

    x0, y0 = min(s1.bounds[0], s2.bounds[0]), min(s1.bounds[1], s2.bounds[1])
    w, h = max(s1.bounds[2], s2.bounds[2]) - x0, max(s1.bounds[3], s2.bounds[3]) - y0
    if w > 1e-300 and h > 1e-300 and math.isfinite(w) and math.isfinite(h):
        s1, s2 = (A.scale(A.translate(s, -x0, -y0), 1 / w, 1 / h, origin=(0, 0)) for s in (s1, s2))
    inter = s1.intersection(s2).area
    union = s1.area + s2.area - inter
    return 0.0 if union == 0 else min(1.0, inter / union)


def f30(spec, kind, message):
    """Open-finding classifier F30: the shift law misses its 1e-9 tolerance by no more than 2e-12 x (largest coordinate of a buffered
    geometry measured in buffers) - what GEOS' reduced-precision buffer fallback (12 significant digits of the coordinates it is given,
    which buffer_geometry hands over in absolute position, scaled by 1/buffer) explains."""
    if kind != "shift":
        return False
    import re

    m = re.search(r": ([0-9.eE+-]+) -> ([0-9.eE+-]+)$", message)
    if not m:
        return False
    diff = abs(float(m.group(1)) - float(m.group(2)))
    tb, fb = spec["tb"], spec["fb"]
    scale = 0.0
    for g in (spec["g1"], spec["g2"]):
        if g["type"] in BUFFERED and g["type"] != "TimeStamp":
            b = ref_bounds(g["type"], g["coordinates"])
            scale = max(scale, b[2] / tb if tb > 0 else 0.0, b[3] / fb if fb > 0 else 0.0)
    return scale >= 1e3 and diff <= 2e-12 * scale


KNOWN = {"F30-shift-variance-at-large-scaled-coordinates": f30}


def in_f16_region(kind, b, tb, fb):
    """True when buffer_geometry works on coordinates >= 1e6 unit buffers for this geometry (C11 finding F16: GEOS snap-rounds there,
    the buffered extents are off by up to ~1e-3 buffers).  Time stamps / intervals / boxes are buffered arithmetically."""
    if kind not in BUFFERED or kind == "TimeStamp":
        return False
    return max(b[2] / tb if tb > 0 else b[2] * 1e9, b[3] / fb if fb > 0 else b[3] * 1e9) >= 1e6


def has_area(kind, coords):
    b = ref_bounds(kind, coords)
    if kind in BUFFERED:
        return True
    if kind == "TimeInterval":
        return b[2] > b[0]
    # "non-zero extent" = the area is non-zero in binary64 (a 1e-278 x 1e-275 box has area 0.0)
    return to_shp(kind, coords).area > 0


def check(spec, ctx):
    from soundevent import data
    from soundevent.evaluation import compute_affinity
    from soundevent.geometry import buffer_geometry

    g1 = data.geometry_validate(geom_dict(spec["g1"]), mode="dict")
    g2 = data.geometry_validate(geom_dict(spec["g2"]), mode="dict")
    k1, k2 = g1.type, g2.type
    tb, fb = spec["tb"], spec["fb"]
    if (k1 in BUFFERED or k2 in BUFFERED) and (tb <= 0 or fb <= 0):
        raise ValueError("malformed spec: positive buffers required")
    b1, b2 = ref_bounds(k1, g1.coordinates), ref_bounds(k2, g2.coordinates)

    def aff(x, y, t=tb, f=fb):
        return ctx.call(spec, f"compute_affinity({x.type},{y.type},{t},{f})", compute_affinity, x, y, time_buffer=t, freq_buffer=f)

    from vf.core import snapshot

    geoms_before = snapshot((g1, g2))
    try:
        a12 = aff(g1, g2)
    except Exception:
        ctx.case(spec, nontrivial=False, labels=[f"{k1}/{k2}", "raised"])
        raise
    a21 = aff(g2, g1)
    identical = spec["placement"] == "identical"
    labels = [f"{k1}/{k2}", spec["placement"], "a=0" if a12 == 0 else ("a=1" if a12 == 1 else ("a>1" if a12 > 1 else "0<a<1"))]
    ctx.case(spec, nontrivial=(0 < a12 < 1) or identical, labels=labels, out={"affinity": a12})

    def chk_range(a, what):
        if not (isinstance(a, (int, float)) and 0 <= a <= 1):
            ctx.fail(f"affinity {what} = {a!r} outside [0, 1] for {k1}/{k2} buffers ({tb}, {fb})", spec, a, "[0,1]", kind="range")

    chk_range(a12, "(g1,g2)")
    chk_range(a21, "(g2,g1)")
    if abs(a12 - a21) > SYM_TOL:
        ctx.fail(f"affinity not symmetric for {k1}/{k2}: {a12} vs {a21}", spec, [a12, a21], None, kind="symmetry")

    # self affinity
    for g, k in ((g1, k1), (g2, k2)):
        if has_area(k, g.coordinates):
            s = aff(g, g)
            chk_range(s, f"({k},{k}) self")
            if not (1 - 1e-6 <= s):
                ctx.fail(f"self affinity of a {k} with non-zero extent is {s}, expected 1", spec, s, 1.0, kind="self")

    # disjoint in time => 0
    e1, e2 = buffered_time_extent(k1, b1, tb), buffered_time_extent(k2, b2, tb)
    def slack(t, f):
        # in the F16 region the buffered extents themselves are only good to ~1e-3 buffers (see in_f16_region)
        return 1e-2 * t if (in_f16_region(k1, b1, t, f) or in_f16_region(k2, b2, t, f)) else 0.0

    gap = max(e1[0], e2[0]) - min(e1[1], e2[1])
    if gap > 1e-9 * max(1.0, e1[1], e2[1]) + slack(tb, fb) and a12 != 0:
        ctx.fail(f"buffered geometries are disjoint in time (gap {gap}) but affinity is {a12}", spec, a12, 0, kind="disjoint")

    # boxes: closed form
    if k1 == "BoundingBox" and k2 == "BoundingBox":
        iw = max(0.0, min(b1[2], b2[2]) - max(b1[0], b2[0]))
        ih = max(0.0, min(b1[3], b2[3]) - max(b1[1], b2[1]))
        inter = iw * ih
        union = (b1[2] - b1[0]) * (b1[3] - b1[1]) + (b2[2] - b2[0]) * (b2[3] - b2[1]) - inter
        exp = 0.0 if union == 0 else inter / union
        if abs(a12 - exp) > 1e-9:
            ctx.fail(f"box affinity {a12} differs from the area IoU {exp}", spec, a12, exp, kind="box_iou")

    # time-only: 1-D IoU of buffered time extents
    def time_only_oracles(a, t, f, tag):
        # (1) the extents of the geometries buffered through the public buffer_geometry (whatever precision that has: C11's subject)
        def ext(g, k):
            p = buffer_geometry(g, time_buffer=t, freq_buffer=f) if k in BUFFERED else g
            pb = ref_bounds(p.type, p.coordinates)
            return (pb[0], pb[2])

        exp = iou_1d(ext(g1, k1), ext(g2, k2))
        if abs(a - min(1.0, exp)) > 1e-9:
            ctx.fail(f"time-only affinity {a} {tag}for {k1}/{k2} differs from the 1-D IoU {exp} of the time extents of the geometries buffered with ({t},{f})", spec, a, exp, kind="time_only_differential")
        # (2) the ideal extents (bounds +/- buffer), where buffer_geometry is exact enough to say so: outside the region of C11's
        # finding F16 (coordinates >= 1e6 unit buffers in the space the code buffers in, where GEOS snap-rounds)
        if in_f16_region(k1, b1, t, f) or in_f16_region(k2, b2, t, f):
            ctx.label("ideal_band_skipped_f16_region")
            return
        lo, hi = time_only_band(k1, b1, k2, b2, t)
        if not (lo - 1e-9 <= a <= hi + 1e-9):
            ctx.fail(f"time-only affinity {a} {tag}for {k1}/{k2} outside the 1-D IoU band [{lo}, {hi}] of the time extents buffered by {t}", spec, a, [lo, hi], kind="time_only")

    if k1 in TIME_KINDS or k2 in TIME_KINDS:
        time_only_oracles(a12, tb, fb, "")
    else:
        # differential: IoU of the shapes buffered through the public API
        def prep(g, k):
            return buffer_geometry(g, time_buffer=tb, freq_buffer=fb) if k in BUFFERED else g

        p1, p2 = prep(g1, k1), prep(g2, k2)
        exp = ref_iou(to_shp(p1.type, p1.coordinates), to_shp(p2.type, p2.coordinates))
        if abs(a12 - exp) > 1e-9:
            ctx.fail(f"affinity {a12} for {k1}/{k2} differs from IoU {exp} of the geometries buffered with ({tb},{fb})", spec, a12, exp, kind="iou_of_buffered")

    # shift invariance - asserted when t -> t + dt reproduces the shapes: floating-point addition must not move any time by more than
    # 1e-9 of the smallest time gap of the pair (a box 2e-19 s wide collapses to zero width when shifted to t = 1)
    def times_of(k, c):
        if k == "TimeStamp":
            return [c]
        if k == "TimeInterval":
            return list(c)
        if k == "BoundingBox":
            return [c[0], c[2]]
        return [q[0] for q in leaves(c)]

    dt = spec["dt"]
    all_t = sorted(set(times_of(k1, g1.coordinates) + times_of(k2, g2.coordinates)))
    gaps = [b - a for a, b in zip(all_t, all_t[1:])] + ([tb] if tb > 0 else [])
    from fractions import Fraction as _Fr

    shift_err = max(abs(float(_Fr(t + dt) - (_Fr(t) + _Fr(dt)))) for t in all_t)  # exact rounding error of each shifted time
    faithful = shift_err <= 1e-9 * min(gaps) if gaps else shift_err == 0
    if not faithful:
        ctx.label("shift_inexact_skipped")
    if faithful and (in_f16_region(k1, b1, tb, fb) or in_f16_region(k2, b2, tb, fb)):
        # the buffered extents themselves are only good to ~1e-3 buffers there (C11 finding F16) and move with the absolute position
        faithful = False
        ctx.label("shift_skipped_f16_region")
    if faithful and e1[0] > 0 and e2[0] > 0 and b1[0] - tb > 0 and b2[0] - tb > 0:
        try:
            h1 = data.geometry_validate({"type": k1, "coordinates": shift_spec_time(k1, g1.coordinates, dt)}, mode="dict")
            h2 = data.geometry_validate({"type": k2, "coordinates": shift_spec_time(k2, g2.coordinates, dt)}, mode="dict")
        except ValueError:
            h1 = None  # adding dt merged two nearly equal times of a multi-line: the shifted geometry does not exist
            ctx.label("shift_collapses_line_skipped")
        a_s = aff(h1, h2) if h1 is not None else a12
        ctx.label("shift_checked")
        if abs(a_s - a12) > 1e-9:
            ctx.fail(f"affinity changes under a common time shift {dt}: {a12} -> {a_s}", spec, a_s, a12, kind="shift")

    # geometries that went through pickle (a multiprocessing worker, a joblib cache): equal objects, not the same string objects inside
    import pickle

    a_pk = ctx.call(spec, "compute_affinity(unpickled geometries)", compute_affinity, pickle.loads(pickle.dumps(g1)), pickle.loads(pickle.dumps(g2)), time_buffer=tb, freq_buffer=fb)
    if a_pk != a12:
        ctx.fail(f"compute_affinity of the unpickled geometries = {a_pk}, of the originals = {a12}", spec, a_pk, a12, kind="pickle")
    # two calls running in two threads: this one is suspended at lines inside the library while the other thread compares the same
    # geometries the other way round under larger buffers
    ctx.interleave(
        spec,
        "compute_affinity",
        lambda: compute_affinity(g1, g2, time_buffer=tb, freq_buffer=fb),
        lambda: compute_affinity(g2, g1, time_buffer=tb + 0.25, freq_buffer=fb + 50.0),
        every=5,
        max_pauses=32,
    )
    # buffers passed positionally (documented order: geometry1, geometry2, time_buffer, freq_buffer)
    a_pos = ctx.call(spec, "compute_affinity(g1, g2, tb, fb) positional", compute_affinity, g1, g2, tb, fb)
    if a_pos != a12:
        ctx.fail(f"compute_affinity with positional buffers = {a_pos}, with keyword buffers = {a12}", spec, a_pos, a12, kind="positional")
    # omitted buffers mean the documented defaults (0.01 s, 100 Hz)
    if max(b1[2], b2[2]) / 0.01 < 1e6:
        d_omitted = ctx.call(spec, "compute_affinity(defaults)", compute_affinity, g1, g2)
        d_explicit = aff(g1, g2, 0.01, 100)
        if d_omitted != d_explicit:
            ctx.fail(f"compute_affinity without buffers = {d_omitted}, with the documented defaults (0.01, 100) = {d_explicit}", spec, d_omitted, d_explicit, kind="defaults")
    # a second call with other buffers on the same objects, then the first again: no hidden state
    tb2, fb2 = spec["tb2"], spec["fb2"]
    c12 = aff(g1, g2, tb2, fb2)
    chk_range(c12, "(second buffers)")
    if k1 in TIME_KINDS or k2 in TIME_KINDS:
        time_only_oracles(c12, tb2, fb2, "(second buffers) ")
    f1, f2 = buffered_time_extent(k1, b1, tb2), buffered_time_extent(k2, b2, tb2)
    gap2 = max(f1[0], f2[0]) - min(f1[1], f2[1])
    if gap2 > 1e-9 * max(1.0, f1[1], f2[1]) + slack(tb2, fb2) and c12 != 0:
        ctx.fail(f"(second buffers) disjoint in time (gap {gap2}) but affinity is {c12}", spec, c12, 0, kind="disjoint")
    ctx.unchanged(spec, "compute_affinity: the geometries", geoms_before, (g1, g2))
    again = aff(g1, g2)
    if again != a12:
        ctx.fail(f"same call gives {a12} then {again} after a call with other buffers", spec, again, a12, kind="not_deterministic")
    if not (k1 in TIME_KINDS or k2 in TIME_KINDS):
        def prep2(g, k):
            return buffer_geometry(g, time_buffer=tb2, freq_buffer=fb2) if k in BUFFERED else g

        p1, p2 = prep2(g1, k1), prep2(g2, k2)
        exp = ref_iou(to_shp(p1.type, p1.coordinates), to_shp(p2.type, p2.coordinates))
        if abs(c12 - exp) > 1e-9:
            ctx.fail(f"(second buffers) affinity {c12} differs from IoU {exp} of the buffered geometries", spec, c12, exp, kind="iou_of_buffered")

    # geometries derived from the two that were just used (pydantic models are mutable): a copy with other coordinates and the
    # same object after its coordinates were re-assigned are judged by their CURRENT coordinates, like freshly built ones
    try:
        n1 = data.geometry_validate({"type": k1, "coordinates": shift_spec_time(k1, g1.coordinates, dt)}, mode="dict")
        n2 = data.geometry_validate({"type": k2, "coordinates": shift_spec_time(k2, g2.coordinates, 2 * dt)}, mode="dict")
    except ValueError:
        return  # the moved line does not exist (two nearly equal times merged)
    fresh = aff(n1, n2)
    d1 = g1.model_copy(update={"coordinates": n1.coordinates})
    d2 = g2.model_copy(update={"coordinates": n2.coordinates}, deep=True)
    got = aff(d1, d2)
    if got != fresh:
        ctx.fail(f"affinity of copies derived (model_copy(update=coordinates)) from used geometries is {got}, freshly built geometries with the same coordinates give {fresh}", spec, got, fresh, kind="stale_derived")
    g1.coordinates = n1.coordinates
    g2.coordinates = n2.coordinates
    got = aff(g1, g2)
    if got != fresh:
        ctx.fail(f"affinity after the coordinates of used geometries were re-assigned is {got}, freshly built geometries with the same coordinates give {fresh}", spec, got, fresh, kind="stale_after_assignment")


def enum_tiny_extent(tier):
    """Boxes (and the same rectangles as polygons) whose time extent or bandwidth is n sub-normal steps wide, against their first j steps:
    the intersection over union is j/n exactly, and the self affinity 1 - however small the unit is (a joint extent below 1e-308 cannot
    be inverted in floats, which is what a normalisation of the pair would try)."""
    out = []
    for e in ([0, 1, 5, 20, 40, 52, 60] if tier == "quick" else list(range(0, 64, 3)) + [52, 60, 100, 500]):
        for n in range(2, 9 if tier == "quick" else 13):
            for j in range(1, n + 1):
                for axis in ("time", "frequency"):
                    for kind2 in ("BoundingBox", "Polygon"):
                        out.append({"e": e, "n": n, "j": j, "axis": axis, "kind2": kind2})
    return out


def check_tiny_extent(spec, ctx):
    from soundevent import data
    from soundevent.evaluation import compute_affinity

    e, n, j, axis, kind2 = spec["e"], spec["n"], spec["j"], spec["axis"], spec["kind2"]
    if not (0 <= e <= 900 and 2 <= n <= 16 and 1 <= j <= n and axis in ("time", "frequency") and kind2 in ("BoundingBox", "Polygon")):
        raise ValueError("malformed spec")
    u = 5e-324 * 2.0**e
    if axis == "time":
        c1, c2 = [0.0, 100.0, n * u, 200.0], [0.0, 100.0, j * u, 200.0]
    else:
        c1, c2 = [1.0, 0.0, 2.0, n * u], [1.0, 0.0, 2.0, j * u]
    g1 = data.BoundingBox(coordinates=c1)
    g2 = data.BoundingBox(coordinates=c2) if kind2 == "BoundingBox" else data.Polygon(coordinates=[[[c2[0], c2[1]], [c2[2], c2[1]], [c2[2], c2[3]], [c2[0], c2[3]]]])
    exp = j / n
    ctx.case(spec, nontrivial=j < n, labels=[axis, kind2, "subnormal" if n * u < 2.2250738585072014e-308 else "normal"], out={"expected": exp})
    for what, a, b in (("(box, part)", g1, g2), ("(part, box)", g2, g1), ("(box, box)", g1, g1), ("(part, part)", g2, g2)):
        want = exp if a is not b else 1.0
        got = ctx.call(spec, f"compute_affinity{what} with an extent of {n} x {u!r} along {axis}", compute_affinity, a, b, time_buffer=0, freq_buffer=0)
        if not (isinstance(got, float) and abs(got - want) <= 1e-9):
            ctx.fail(f"compute_affinity{what}: {axis} extent {n} x {u!r}, part {j} x {u!r}: got {got!r}, the area intersection over union is {want!r}", spec, got, want, kind="tiny_extent_iou")


def enum_equal_bounds(tier):
    """Pairs of different shapes that have the SAME bounding box (and mostly the same area): the two halves of a box cut along its diagonal
    (IoU 0), a rising and a falling right triangle on one base (1/3), the black and the white squares of a 2 x 2 checkerboard (0), a box
    against the full-height box over the same time span (bandwidth / MAX_FREQUENCY), a box against the triangle inscribed in it (1/2)."""
    out = []
    for W in ([1.0, 0.25] if tier == "quick" else [1.0, 0.25, 8.0, 2.0**-6]):
        for H in ([1024.0, 4096.0] if tier == "quick" else [1024.0, 4096.0, 64.0, 2.0**20]):
            for t0 in (0.0, 2.0, 64.0):
                for f0 in (0.0, 512.0):
                    for pair in ("halves", "rise_fall", "checkerboard", "full_height", "inscribed"):
                        for buffers in ("zero", "default"):
                            out.append({"W": W, "H": H, "t0": t0, "f0": f0, "pair": pair, "buffers": buffers})
    return out


def check_equal_bounds(spec, ctx):
    from soundevent import data
    from soundevent.evaluation import compute_affinity

    W, H, t0, f0 = spec["W"], spec["H"], spec["t0"], spec["f0"]
    if W <= 0 or H <= 0 or t0 < 0 or f0 < 0 or f0 + H > MAXF or spec["pair"] not in ("halves", "rise_fall", "checkerboard", "full_height", "inscribed"):
        raise ValueError("malformed spec")
    a, b, c, d = t0, t0 + W, f0, f0 + H
    tm, fm = (a + b) / 2, (c + d) / 2
    P = lambda *pts: data.Polygon(coordinates=[[list(q) for q in pts]])  # noqa: E731
    if spec["pair"] == "halves":
        g1, g2, want = P((a, c), (b, c), (a, d)), P((b, c), (b, d), (a, d)), 0.0
    elif spec["pair"] == "rise_fall":
        g1, g2, want = P((a, c), (b, c), (b, d)), P((a, c), (b, c), (a, d)), 1 / 3
    elif spec["pair"] == "checkerboard":
        sq = lambda x0, y0: [[[x0, y0], [x0 + W / 2, y0], [x0 + W / 2, y0 + H / 2], [x0, y0 + H / 2]]]  # noqa: E731
        g1, g2, want = data.MultiPolygon(coordinates=[sq(a, c), sq(tm, fm)]), data.MultiPolygon(coordinates=[sq(tm, c), sq(a, fm)]), 0.0
    elif spec["pair"] == "full_height":
        g1, g2, want = data.BoundingBox(coordinates=[a, 0.0, b, float(MAXF)]), data.BoundingBox(coordinates=[a, c, b, d]), H / float(MAXF)
    else:
        g1, g2, want = data.BoundingBox(coordinates=[a, c, b, d]), P((a, c), (b, c), (b, d)), 0.5
    kw = {"time_buffer": 0, "freq_buffer": 0} if spec["buffers"] == "zero" else {}  # area geometries are not buffered: the defaults change nothing
    ctx.case(spec, nontrivial=True, labels=[spec["pair"], spec["buffers"]], out={"expected": want})
    for what, x, y in (("(g1, g2)", g1, g2), ("(g2, g1)", g2, g1)):
        got = ctx.call(spec, f"compute_affinity{what} [{spec['pair']}]", compute_affinity, x, y, **kw)
        if not (isinstance(got, (int, float)) and abs(got - want) <= 1e-9):
            ctx.fail(f"compute_affinity{what} of the {spec['pair']} pair in the box [{a}, {b}] x [{c}, {d}] = {got!r}, the area intersection over union is {want!r}", spec, got, want, kind="equal_bounds_iou")


SUBS = [
    Sub("equal_bounds", check_equal_bounds, enumerate=enum_equal_bounds, exhaustive_note="a fixed family, not a domain: 5 shape pairs x box sizes x positions x buffers zero / default", min_nontrivial=0.0),
    Sub("tiny_extents", check_tiny_extent, enumerate=enum_tiny_extent, exhaustive_note="a fixed family, not a domain: units 5e-324 x 2^e (7 / 25 exponents) x widths 2..8 / 2..12 x every part x time / frequency x box / polygon", min_nontrivial=0.0),
    Sub("affinity_laws", check, strategy=case, quick=8100, thorough=250000, min_nontrivial=0.15),
    Sub("near_coincident", check, strategy=near_case, quick=6000, thorough=200000, min_nontrivial=0.5),
]
