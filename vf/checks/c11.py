"""C11 - buffering grows a geometry and never leaves the valid domain."""

from __future__ import annotations

import math

from hypothesis import strategies as st

from vf.core import Sub
from vf.oracles.shp import scaled, to_shp
from vf.strategies import MAXF, geom_dict, geometry_spec, ref_bounds

PROP = "C11"
TECHNIQUE = "property-based testing: closed-form oracle (TimeStamp/TimeInterval/BoundingBox) + validity, containment, bounds-growth and monotonicity relations over generated geometries and buffer pairs"
LEVEL_TEXT = (
    "buffer_geometry is run on generated geometries of every type x buffer pairs (0, tiny, huge, larger than the domain) at the "
    "domain edges; the result is re-validated by an independent validator, compared with the closed form for the three exact "
    "types, and checked for containment of the original, bound growth >= cos(pi/32)*buffer (shapely's inscribed round caps) and "
    "monotonicity in the buffers. Exploration."
)
LEVEL_NOTE = "trusts shapely's covers()/bounds as observers on the result; tolerances: 1e-7 in extent-normalised units for containment, 1e-9*(buffer+extent)+64ulp for bounds"
RULE = (
    "Hypothesis: valid geometry of any of the nine types (grid/free coordinates, 5 time x 4 frequency scales, touching t=0, f=0, f=MAX) "
    "x (time buffer, frequency buffer) from palettes {0, 1e-3, 0.1, 1, 5, 100, 1e5} x {0, 1, 100, 5000, 1e7} and free floats, plus a second, "
    "larger buffer pair for the superset law; negative buffers for the rejection rule. Non-trivial = a non-zero buffer on at least one axis "
    "and (the geometry lies within one buffer of a domain edge, or it is a multi-geometry / has a hole)."
)
ASSUMPTIONS = [
    "polygon inputs are shapely-valid (GEOS buffer results are undefined otherwise)",
    "round caps are inscribed 32-gons (quad_segs=8): extents may fall short of the nominal buffer by the factor cos(pi/32), nothing looser",
]

THETA = math.cos(math.pi / 32)
TB = [0.0, 1e-3, 0.1, 1.0, 5.0, 100.0, 1e5]
FB = [0.0, 1.0, 100.0, 5000.0, 1e7]


def scale_ratio(spec):
    """Largest |coordinate| in the space the code buffers in (axis scaled by 1/buffer, or 1e9 for a zero buffer)."""
    g = spec["g"]
    b = ref_bounds(g["type"], g["coordinates"])
    r = 0.0
    for (tb, fb) in (spec["b1"], spec["b2"]):
        fx = 1 / tb if tb > 0 else 1e9
        fy = 1 / fb if fb > 0 else 1e9
        r = max(r, b[2] * fx, b[3] * fy)
    return r


GEOS_KINDS = ("raised", "containment", "bounds_growth", "invalid_result", "monotone", "domain", "result_type")


def _narrower_than_resolution(spec):
    """On some axis the buffer (1e-9 for a zero buffer) is below twice the spacing of floats at the geometry's largest coordinate: the
    buffered shape has no width there in binary64 and collapses to a line."""
    import math as _m

    g = spec["g"]
    b = ref_bounds(g["type"], g["coordinates"])
    for (tb, fb) in (spec["b1"], spec["b2"]):
        for w, cmax in ((tb if tb > 0 else 1e-9, b[2]), (fb if fb > 0 else 1e-9, b[3])):
            if w < 2 * _m.ulp(max(abs(cmax), 1e-300)):
                return True
    return False


def f16(spec, kind, message):
    """Open-finding classifier F16: in the space the code buffers in, coordinates are >= 1e6 unit buffers
    (always the case for a zero buffer on an axis with coordinates >= 1e-3, since zero is emulated by 1e9)."""
    if spec["g"]["type"] in ("TimeStamp", "TimeInterval", "BoundingBox") or kind not in GEOS_KINDS:
        return False
    if kind == "raised" and "KeyError" not in message and not ("ValidationError" in message and ("for MultiPolygon" in message or "for Polygon" in message) and _narrower_than_resolution(spec)):
        # the finding's exceptions: KeyError('coordinates') (GEOS returned an empty shape) and the ValidationError of the result model when
        # the buffered shape collapsed to a line (a zero buffer is 1e-9 wide: narrower than one ulp of a coordinate of 1.6e7) - matched only
        # where the buffer really is below the float resolution of the coordinates.  Anything
        # else - a GEOSException, a TypeError - is news.
        return False
    return scale_ratio(spec) >= 1e6


def f19(spec, kind, message):
    """Open-finding classifier F19: a line that folds back on itself / repeats points (not simple)."""
    g = spec["g"]
    if g["type"] not in ("LineString", "MultiLineString") or kind not in GEOS_KINDS:
        return False
    shp = to_shp(g["type"], g["coordinates"])
    if not shp.is_simple:
        return True
    lines = [g["coordinates"]] if g["type"] == "LineString" else g["coordinates"]
    if g["type"] == "LineString" and all(q == lines[0][0] for q in lines[0]):
        return False  # a line of zero length is a point, not a line that overlaps itself: it is buffered correctly and must stay so
    if any(a == b for l in lines for a, b in zip(l, l[1:])):
        return True
    # a vertex where the line doubles back on itself (angle below ~1 degree in the space the code buffers in)
    return any(has_mitre_limited_vertex(g["type"], g["coordinates"], tb, fb, limit=100.0) for tb, fb in (spec["b1"], spec["b2"]))


def _chains(kind, c):
    """(points, closed) chains whose interior vertices receive a mitre join."""
    if kind == "LineString":
        return [(c, False)]
    if kind == "MultiLineString":
        return [(l, False) for l in c]
    if kind == "Polygon":
        return [(r, True) for r in c]
    if kind == "MultiPolygon":
        return [(r, True) for p in c for r in p]
    return []


def has_mitre_limited_vertex(kind, coords, tb, fb, limit=4.9):
    """True if some vertex, in the anisotropically scaled space the code buffers in, is sharp enough
    (1/sin(angle/2) > mitre limit 5; 4.9 used as a safety margin) for GEOS to bevel the mitre."""
    fx = 1 / tb if tb > 0 else 1e9
    fy = 1 / fb if fb > 0 else 1e9
    for pts, closed in _chains(kind, coords):
        q = [(p[0] * fx, p[1] * fy) for p in pts]
        if closed and q[0] == q[-1]:
            q = q[:-1]
        n = len(q)
        idx = range(n) if closed else range(1, n - 1)
        for i in idx:
            a, b, c = q[(i - 1) % n], q[i], q[(i + 1) % n]
            v1 = (a[0] - b[0], a[1] - b[1])
            v2 = (c[0] - b[0], c[1] - b[1])
            n1, n2 = math.hypot(*v1), math.hypot(*v2)
            if n1 == 0 or n2 == 0:
                return True
            cosang = max(-1.0, min(1.0, (v1[0] * v2[0] + v1[1] * v2[1]) / (n1 * n2)))
            half = math.acos(cosang) / 2
            if math.sin(half) * limit < 1:
                return True
    return False


def f18(spec, kind, message):
    """Open-finding classifier F18: superset law fails by a sliver where GEOS bevels a mitre (sharp vertex)."""
    if kind not in ("monotone", "bounds_growth"):
        return False
    g = spec["g"]
    if any(has_mitre_limited_vertex(g["type"], g["coordinates"], tb, fb) for tb, fb in (spec["b1"], spec["b2"])):
        return True
    if kind == "monotone":
        # a mitre corner protrudes along the bisector of the angle *in the scaled space*; when the two buffers do not grow
        # proportionally that angle changes and the protrusion along the other axis can shrink
        (t1, f1), (t2, f2) = spec["b1"], spec["b2"]
        proportional = t1 > 0 and f1 > 0 and abs(t2 / t1 - f2 / f1) <= 1e-9 * (t2 / t1)
        has_joins = any(len(pts) >= 3 for pts, _ in _chains(g["type"], g["coordinates"]))
        return has_joins and not proportional
    return False


def f27(spec, kind, message):
    """Open-finding classifier F27: the geometry is tiny compared with the buffers (below a fifth of a buffer on both axes in the
    space the code buffers in).  GEOS simplifies the input outline with a tolerance of 1 % of the buffer distance before it buffers, so
    concavities / vertices disappear at the larger buffer and the mitre protrusions they caused at the smaller one are not covered."""
    if kind == "bounds_growth":
        # the same simplification moves the extreme vertex of a geometry that is smaller than its tolerance (1 % of the buffer) by up to
        # the geometry's own extent: the bounds then fall short of "original extreme + buffer" by a few millionths of the buffer
        g = spec["g"]
        if not any(len(pts) >= 3 for pts, _ in _chains(g["type"], g["coordinates"])):
            return False
        b = ref_bounds(g["type"], g["coordinates"])
        return any(tb > 0 and fb > 0 and max((b[2] - b[0]) / tb, (b[3] - b[1]) / fb) < 0.01 for tb, fb in (spec["b1"], spec["b2"]))
    if kind != "monotone":
        return False
    g = spec["g"]
    if not any(len(pts) >= 3 for pts, _ in _chains(g["type"], g["coordinates"])):
        return False
    b = ref_bounds(g["type"], g["coordinates"])
    tb, fb = spec["b2"]
    if tb <= 0 or fb <= 0:
        return False
    if max((b[2] - b[0]) / tb, (b[3] - b[1]) / fb) < 0.2:
        return True
    # the same mechanism on a larger geometry: two consecutive vertices closer than 2 % of the larger buffer (in the space the code buffers
    # in) - the one GEOS drops at the larger buffer and keeps at the smaller one (its tolerance is 1 % of the buffer distance)
    import math as _m

    for pts, _closed in _chains(g["type"], g["coordinates"]):
        for p, q in zip(pts, pts[1:]):
            d = _m.hypot((q[0] - p[0]) / tb, (q[1] - p[1]) / fb)
            if 0 < d < 0.02:
                return True
    return False


KNOWN = {"F16-scaled-coordinates-too-large": f16, "F18-mitre-bevel": f18, "F19-non-simple-line": f19, "F27-input-simplified-at-large-buffers": f27}


@st.composite
def case(draw):
    g = draw(geometry_spec())
    if g["type"] == "LineString" and draw(st.integers(0, 5)) == 0:
        # a line that never leaves its first point (a click traced with two identical vertices): a valid geometry of zero length, buffered
        # like the point it is
        p = list(g["coordinates"][0])
        g = {"type": "LineString", "coordinates": [p] * draw(st.integers(2, 3)), "meta": dict(g["meta"], deg="zero_length")}
    if g["type"] == "Polygon" and len(g["coordinates"]) == 1 and draw(st.integers(0, 2)) == 0:
        # two or three holes with different numbers of vertices (a triangle and a quadrilateral ...), placed inside the bounding box of the
        # outline; kept only when the result is a valid polygon
        import shapely

        ring = g["coordinates"][0]
        t0_, t1_ = min(q[0] for q in ring), max(q[0] for q in ring)
        f0_, f1_ = min(q[1] for q in ring), max(q[1] for q in ring)
        holes = []
        for k_, nv_ in enumerate(draw(st.permutations([3, 4, 5]))[: draw(st.integers(2, 3))]):
            cx, cy = t0_ + (t1_ - t0_) * (k_ + 1) / 4, f0_ + (f1_ - f0_) * draw(st.sampled_from([0.3, 0.5, 0.7]))
            rx, ry = (t1_ - t0_) / 16, (f1_ - f0_) / 16
            import math as _m

            holes.append([[cx + rx * _m.cos(2 * _m.pi * i / nv_), cy + ry * _m.sin(2 * _m.pi * i / nv_)] for i in range(nv_)])
        try:
            cand = shapely.Polygon(ring, holes)
            if cand.is_valid and all(shapely.Polygon(ring).contains(shapely.Polygon(h)) for h in holes):
                g = {"type": "Polygon", "coordinates": [ring] + holes, "meta": g["meta"]}
        except Exception:  # noqa: BLE001
            pass
    def buf(pal, hi):
        return draw(st.one_of(st.sampled_from(pal), st.sampled_from(pal), st.floats(0.0, hi, allow_nan=False, allow_subnormal=False)))
    tb1, fb1 = buf(TB, 50.0), buf(FB, 20000.0)
    if draw(st.integers(0, 5)) == 0:
        # numerically equal buffers on the two axes (1 s and 1 Hz, 100 and 100): nothing special about them
        tb1 = fb1 = draw(st.sampled_from([0.5, 1.0, 2.0, 10.0, 100.0]))
    if draw(st.booleans()):
        k = draw(st.sampled_from([1.0, 1.5, 2.0, 10.0]))  # proportional growth: the superset law is asserted for every type
        tb2, fb2 = tb1 * k, fb1 * k
    else:
        tb2 = tb1 + draw(st.sampled_from([0.0, 1e-3, 0.5, 10.0]))
        fb2 = fb1 + draw(st.sampled_from([0.0, 1.0, 250.0, 1e6]))
    def as_int(x):
        return int(x) if (float(x).is_integer() and abs(x) < 2**53 and draw(st.booleans())) else x

    tb1, fb1, tb2, fb2 = as_int(tb1), as_int(fb1), as_int(tb2), as_int(fb2)
    return {"g": g, "b1": [tb1, fb1], "b2": [tb2, fb2], "kwargs_first": draw(st.sampled_from([None, None, None, None, "single_sided", "quad_segs", "mitre_limit"]))}


@st.composite
def top_edge_case(draw):
    """Geometries within a few buffers of MAX_FREQUENCY (frames measured down from the top) with frequency buffers that are arbitrary
    floats: the outline is cut at the top edge, and the cut must land on MAX_FREQUENCY itself - not one ulp above it - whatever the
    buffer is (scaling the edge by 1/buffer and back is not exact for about one buffer value in a hundred)."""
    fs = draw(st.sampled_from([64.0, 1024.0]))
    frame = {"ts": draw(st.sampled_from([2.0**-3, 1.0])), "fs": fs, "t_off": draw(st.sampled_from([0.0, 3.0, 100.0])), "f_off": 0.0, "flip": True}
    g = draw(geometry_spec(kinds=["Point", "MultiPoint", "LineString", "MultiLineString", "Polygon", "MultiPolygon"], frame=frame, simple_lines=True))
    fb1 = draw(st.floats(fs / 4, 50 * fs, allow_nan=False, allow_subnormal=False))
    tb1 = draw(st.sampled_from([0.125, 0.5, 1.0]))
    k = draw(st.sampled_from([1.5, 2.0]))
    return {"g": g, "b1": [tb1, fb1], "b2": [tb1 * k, fb1 * k], "kwargs_first": None}


def _valid_result(res):
    from vf.checks.c03 import ref_valid

    return ref_valid(res.type, res.model_dump()["coordinates"])


def check(spec, ctx):
    from soundevent import data, geometry

    g = data.geometry_validate(geom_dict(spec["g"]), mode="dict")
    kind, coords = g.type, g.coordinates
    ob = ref_bounds(kind, coords)
    tb, fb = spec["b1"]
    if spec["b2"][0] < tb or spec["b2"][1] < fb or tb < 0 or fb < 0:
        raise ValueError("malformed spec (second buffer pair must dominate the first)")
    near_edge = ob[0] <= tb or (kind not in ("TimeStamp", "TimeInterval") and (ob[1] <= fb or ob[3] >= MAXF - fb))
    complex_ = kind.startswith("Multi") or (kind == "Polygon" and len(coords) > 1)
    nontrivial = (tb > 0 or fb > 0) and (near_edge or complex_)
    labels = [kind, "tb0" if tb == 0 else "tb+", "fb0" if fb == 0 else "fb+", "edge" if near_edge else "interior"]
    if kind in ("Polygon", "MultiPolygon") and not to_shp(kind, coords).is_valid:
        raise ValueError("malformed spec: polygon inputs must be shapely-valid (stated assumption)")
    results = []
    kwf = spec.get("kwargs_first")
    if kwf and scale_ratio(spec) < 1e6:
        # a caller passing shapely options once must not change what later default calls return
        extra = {"single_sided": {"single_sided": True}, "quad_segs": {"quad_segs": 1}, "mitre_limit": {"mitre_limit": 1.0}}[kwf]
        try:
            geometry.buffer_geometry(g, time_buffer=max(tb, 0.5), freq_buffer=max(fb, 1.0), **extra)
        except Exception:
            pass
        labels = labels + [f"after_kwargs={kwf}"]
    if kind not in ("TimeStamp", "TimeInterval", "BoundingBox") and not scale_ratio(spec) < 1e290:
        # scaled coordinates overflow to inf and GEOS segfaults the interpreter: counted under F16, never executed
        ctx.case(spec, nontrivial=False, labels=labels + ["not_executed_overflow"])
        if "F16-scaled-coordinates-too-large" in ctx.open_findings:
            ctx.known_hits["F16-scaled-coordinates-too-large"] += 1
            return
        raise ValueError("spec outside the executable domain (scaled coordinates overflow)")
    for (b_t, b_f) in (spec["b1"], spec["b2"]):
        try:
            res = geometry.buffer_geometry(g, time_buffer=b_t, freq_buffer=b_f)
        except Exception as e:
            ctx.case(spec, nontrivial=nontrivial, labels=labels + ["raised"])
            ctx.fail(f"buffer_geometry({kind}, time_buffer={b_t}, freq_buffer={b_f}) raised {type(e).__name__}: {str(e)[:200]}", spec, repr(e)[:300], "a valid geometry", kind="raised")
            return
        results.append(res)
    ctx.case(spec, nontrivial=nontrivial, labels=labels, out={"type": results[0].type})

    # a geometry that went through pickle (worker processes, caches) is buffered like the original
    import pickle

    try:
        if geometry.buffer_geometry(pickle.loads(pickle.dumps(g)), time_buffer=tb, freq_buffer=fb) != results[0]:
            ctx.fail("buffer_geometry of the unpickled geometry differs from the result for the original", spec, None, None, kind="pickle")
    except Exception as e:
        ctx.fail(f"buffer_geometry of the unpickled geometry raised {type(e).__name__} although the original was buffered", spec, repr(e)[:200], None, kind="pickle")
    # buffers passed positionally (documented order: geometry, time_buffer, freq_buffer)
    try:
        if geometry.buffer_geometry(g, tb, fb) != results[0]:
            ctx.fail("buffer_geometry(geometry, tb, fb) with positional buffers differs from the keyword call", spec, None, None, kind="positional")
    except Exception as e:
        ctx.fail(f"buffer_geometry(geometry, {tb}, {fb}) with positional buffers raised {type(e).__name__} although the keyword call returned", spec, repr(e)[:200], None, kind="positional")
    # a zero buffer written as -0.0 (what round(-0.3) or -1 * 0.0 give) is the zero buffer
    if tb == 0 or fb == 0:
        ntb, nfb = (-0.0 if tb == 0 else tb), (-0.0 if fb == 0 else fb)
        try:
            if geometry.buffer_geometry(g, time_buffer=ntb, freq_buffer=nfb) != results[0]:
                ctx.fail(f"buffer_geometry with the zero buffer written as -0.0 ({ntb}, {nfb}) differs from the call with 0.0", spec, None, None, kind="negative_zero")
        except Exception as e:
            ctx.fail(f"buffer_geometry({kind}, {ntb}, {nfb}) raised {type(e).__name__} although ({tb}, {fb}) is buffered", spec, repr(e)[:200], None, kind="negative_zero")
        ctx.label("negative_zero_buffer")
    # two calls running in two threads, this one suspended at lines inside the library while the other buffers by other amounts
    b1_, b2_ = spec["b1"], spec["b2"]
    if list(b1_) != list(b2_):
        ctx.interleave(
            spec,
            f"buffer_geometry({kind})",
            lambda: geometry.buffer_geometry(g, time_buffer=b1_[0], freq_buffer=b1_[1]),
            lambda: geometry.buffer_geometry(g, time_buffer=b2_[0], freq_buffer=b2_[1]),
            every=5,
            max_pauses=32,
        )
    # omitted buffers mean 0
    if scale_ratio(spec) < 1e6 or kind in ("TimeStamp", "TimeInterval", "BoundingBox"):
        try:
            if geometry.buffer_geometry(g, time_buffer=tb) != geometry.buffer_geometry(g, time_buffer=tb, freq_buffer=0) or geometry.buffer_geometry(g, freq_buffer=fb) != geometry.buffer_geometry(g, time_buffer=0, freq_buffer=fb):
                ctx.fail("an omitted buffer is not treated as 0", spec, None, None, kind="defaults")
        except Exception:
            pass  # zero buffers fall into finding F16 for shapely-buffered types
    shp_o = to_shp(kind, coords)
    if kind in ("Polygon", "MultiPolygon") and not shp_o.is_valid:
        raise ValueError("malformed spec: polygon inputs must be shapely-valid (stated assumption)")
    prev = None
    for (b_t, b_f), res in zip((spec["b1"], spec["b2"]), results):
        if not _valid_result(res):
            ctx.fail(f"buffer_geometry({kind}, {b_t}, {b_f}) returned an invalid geometry", spec, res.model_dump(), None, kind="invalid_result")
        rb = ref_bounds(res.type, res.coordinates)
        if rb[0] < 0 or rb[1] < 0 or rb[3] > MAXF:
            ctx.fail(f"buffer_geometry result leaves the domain: bounds {rb}", spec, rb, None, kind="domain")
        if kind in ("TimeStamp", "TimeInterval", "BoundingBox"):
            if kind == "TimeStamp":
                exp_t, exp_c = "TimeInterval", [max(coords - b_t, 0), coords + b_t]
            elif kind == "TimeInterval":
                exp_t, exp_c = "TimeInterval", [max(coords[0] - b_t, 0), coords[1] + b_t]
            else:
                exp_t = "BoundingBox"
                exp_c = [max(coords[0] - b_t, 0), max(coords[1] - b_f, 0), coords[2] + b_t, min(coords[3] + b_f, MAXF)]
            if res.type != exp_t or [float(x) for x in res.coordinates] != [float(x) for x in exp_c]:
                ctx.fail(f"buffer_geometry({kind} {coords}, {b_t}, {b_f}) = {res.type} {res.coordinates}, closed form {exp_t} {exp_c}", spec, res.coordinates, exp_c, kind="closed_form")
            prev = res
            continue
        if res.type not in ("Polygon", "MultiPolygon"):
            ctx.fail(f"buffered {kind} has unexpected type {res.type}", spec, res.type, "Polygon|MultiPolygon", kind="result_type")
        # bounds growth (clipped at the domain edges)
        ext_t, ext_f = ob[2] - ob[0], ob[3] - ob[1]
        # 1e-6 of the buffer on top of the cos(pi/32) cap allowance (4.8e-3): GEOS was seen 1.2e-9 of the buffer short of the exact
        # inscribed-cap extent when an axis falls right between two cap vertices (buffer 1e5 s, thorough tier)
        et = 1e-6 * (b_t + ext_t) + 64 * math.ulp(max(ob[2] + b_t, 1e-300))
        ef = 1e-6 * (b_f + ext_f) + 64 * math.ulp(max(ob[3] + b_f, 1e-300))
        want = [max(0.0, ob[0] - THETA * b_t), max(0.0, ob[1] - THETA * b_f), ob[2] + THETA * b_t, min(float(MAXF), ob[3] + THETA * b_f)]
        if rb[0] > want[0] + et or rb[2] < want[2] - et or rb[1] > want[1] + ef or rb[3] < want[3] - ef:
            ctx.fail(
                f"buffer_geometry({kind}, {b_t}, {b_f}): bounds {rb} do not extend the original's {ob} by the buffers (need at most/at least {want})",
                spec, rb, want, kind="bounds_growth",
            )
        # containment of the original (in extent-normalised coordinates)
        shp_r = to_shp(res.type, res.coordinates)
        sx = max(rb[2] - rb[0], 1e-300)
        sy = max(rb[3] - rb[1], 1e-300)
        nr, no = scaled(shp_r, sx, sy, rb[0], rb[1]), scaled(shp_o, sx, sy, rb[0], rb[1])
        if not nr.buffer(1e-7).covers(no):
            ctx.fail(f"buffer_geometry({kind}, {b_t}, {b_f}) does not contain the original geometry", spec, res.model_dump()["coordinates"], None, kind="containment")
        if prev is not None:
            # superset law.  Geometries with round caps / round point buffers (inscribed 32-gons whose orientation
            # follows the line direction in the scaled space) may fall short by (1-cos(pi/32)) * buffer; polygons
            # have mitre joins only and get the bare 1e-7 tolerance.
            shp_p = to_shp(prev.type, prev.coordinates)
            capped = kind in ("Point", "MultiPoint", "LineString", "MultiLineString")
            dt = ((1 - THETA) * b_t if capped else 0.0) + 1e-7 * sx
            df = ((1 - THETA) * b_f if capped else 0.0) + 1e-7 * sy
            if not scaled(shp_r, dt, df, rb[0], rb[1]).buffer(1.0).covers(scaled(shp_p, dt, df, rb[0], rb[1])):
                ctx.fail(f"larger buffers {spec['b2']} do not give a superset of buffers {spec['b1']} for {kind}", spec, None, None, kind="monotone")
        prev = res
    # exact types: monotone by closed form already; check explicitly for completeness
    if kind in ("TimeStamp", "TimeInterval", "BoundingBox"):
        a, b = results
        ba, bb = ref_bounds(a.type, a.coordinates), ref_bounds(b.type, b.coordinates)
        if not (bb[0] <= ba[0] and bb[1] <= ba[1] and bb[2] >= ba[2] and bb[3] >= ba[3]):
            ctx.fail("larger buffers do not give a superset (exact types)", spec, bb, ba, kind="monotone")

    # a copy derived from the geometry that was just buffered, and that geometry after its coordinates were re-assigned, are
    # buffered like a freshly built geometry with those coordinates (pydantic models are mutable; nothing may be remembered)
    from vf.oracles.shp import shift_spec_time

    b_t, b_f = spec["b1"]
    try:
        fresh_g = data.geometry_validate({"type": kind, "coordinates": shift_spec_time(kind, coords, 1.0)}, mode="dict")
        fresh = geometry.buffer_geometry(fresh_g, time_buffer=b_t, freq_buffer=b_f)
    except Exception:
        return  # the moved geometry does not exist / runs into a finding of its own
    for what, obj in (("model_copy(update=coordinates) of a buffered geometry", g.model_copy(update={"coordinates": fresh_g.coordinates})), ("deep copy with new coordinates", g.model_copy(update={"coordinates": fresh_g.coordinates}, deep=True))):
        got = ctx.call(spec, f"buffer_geometry({what})", geometry.buffer_geometry, obj, time_buffer=b_t, freq_buffer=b_f)
        if got != fresh:
            ctx.fail(f"{what}: buffered result differs from the one of a freshly built {kind} with the same coordinates", spec, got.model_dump()["coordinates"], fresh.model_dump()["coordinates"], kind="stale_derived")
    g.coordinates = fresh_g.coordinates
    got = ctx.call(spec, "buffer_geometry(after coordinates were re-assigned)", geometry.buffer_geometry, g, time_buffer=b_t, freq_buffer=b_f)
    if got != fresh:
        ctx.fail(f"{kind} whose coordinates were re-assigned after a first call: buffered result differs from the one of a freshly built geometry", spec, got.model_dump()["coordinates"], fresh.model_dump()["coordinates"], kind="stale_after_assignment")


@st.composite
def overlap_case(draw):
    """MultiPolygons whose members overlap or nest (two annotators' outlines merged into one geometry): accepted by the data model,
    not 'valid' for shapely - buffering must still return something that contains every member."""
    ts = draw(st.sampled_from([2.0**-3, 1.0, 8.0]))
    fs = draw(st.sampled_from([128.0, 8192.0]))
    t0, f0 = ts * draw(st.integers(0, 16)), fs * draw(st.integers(0, 8))

    def rect(a, b, c, d):
        return [[[t0 + ts * a, f0 + fs * c], [t0 + ts * b, f0 + fs * c], [t0 + ts * b, f0 + fs * d], [t0 + ts * a, f0 + fs * d]]]

    a, c = draw(st.integers(0, 8)), draw(st.integers(0, 8))
    w, h = draw(st.integers(4, 12)), draw(st.integers(4, 12))
    members = [rect(a, a + w, c, c + h)]
    for _ in range(draw(st.integers(1, 2))):
        mode = draw(st.sampled_from(["partial", "nested", "cross"]))
        if mode == "partial":
            dx, dy = draw(st.integers(1, w - 1)), draw(st.integers(1, h - 1))
            members.append(rect(a + dx, a + dx + w, c + dy, c + dy + h))
        elif mode == "nested":
            members.append(rect(a + 1, a + w - 1, c + 1, c + h - 1))
        else:
            members.append(rect(a - 2 if a >= 2 else a, a + w + 2, c + h // 2 - 1, c + h // 2 + 1))
    if draw(st.booleans()):
        members = members[::-1]
    bt = ts * draw(st.sampled_from([0.0, 2.0**-4, 0.25, 1.0, 4.0]))
    bf = fs * draw(st.sampled_from([0.0, 2.0**-4, 0.25, 1.0, 4.0]))
    return {"members": members, "b": [bt, bf]}


def check_overlap(spec, ctx):
    from soundevent import data, geometry

    members, (bt, bf) = spec["members"], spec["b"]
    if len(members) < 2 or bt < 0 or bf < 0:
        raise ValueError("malformed spec")
    g = data.MultiPolygon(coordinates=members)
    shapes = [to_shp("Polygon", m) for m in members]
    if not all(s_.is_valid and s_.area > 0 for s_ in shapes) or not any(shapes[i].intersects(shapes[j]) and shapes[i].intersection(shapes[j]).area > 0 for i in range(len(shapes)) for j in range(i)):
        raise ValueError("malformed spec: members must be valid polygons and at least two must overlap")
    ob = ref_bounds("MultiPolygon", members)
    if max(ob[2] / bt if bt else ob[2] * 1e9, ob[3] / bf if bf else ob[3] * 1e9) >= 1e6:
        ctx.case(spec, nontrivial=False, labels=["f16_region_skipped"])  # zero buffers / huge scaled coordinates: finding F16's subject
        return
    ctx.case(spec, nontrivial=True, labels=[f"members={len(members)}", "tb0" if bt == 0 else "tb+", "fb0" if bf == 0 else "fb+"])
    res = ctx.call(spec, f"buffer_geometry(MultiPolygon with overlapping members, {bt}, {bf})", geometry.buffer_geometry, g, time_buffer=bt, freq_buffer=bf)
    if res.type not in ("Polygon", "MultiPolygon"):
        ctx.fail(f"buffered MultiPolygon has unexpected type {res.type}", spec, res.type, "Polygon|MultiPolygon", kind="result_type")
    rb = ref_bounds(res.type, res.coordinates)
    if rb[0] < 0 or rb[1] < 0 or rb[3] > MAXF:
        ctx.fail(f"buffer_geometry result leaves the domain: bounds {rb}", spec, rb, None, kind="domain")
    shp_r = to_shp(res.type, res.coordinates)
    sx, sy = max(rb[2] - rb[0], 1e-300), max(rb[3] - rb[1], 1e-300)
    nr = scaled(shp_r, sx, sy, rb[0], rb[1])
    for i, s_ in enumerate(shapes):
        if not nr.buffer(1e-7).covers(scaled(s_, sx, sy, rb[0], rb[1])):
            ctx.fail(f"buffer_geometry(MultiPolygon, {bt}, {bf}) does not contain member {i} of the original (members overlap)", spec, res.model_dump()["coordinates"], members[i], kind="containment")
    et, ef = 1e-6 * (bt + ob[2] - ob[0]), 1e-6 * (bf + ob[3] - ob[1])
    want = [max(0.0, ob[0] - bt), max(0.0, ob[1] - bf), ob[2] + bt, min(float(MAXF), ob[3] + bf)]
    if rb[0] > want[0] + et or rb[2] < want[2] - et or rb[1] > want[1] + ef or rb[3] < want[3] - ef:
        ctx.fail(f"bounds {rb} of the buffered MultiPolygon do not extend the original's {ob} by the buffers ({bt}, {bf})", spec, rb, want, kind="bounds_growth")


@st.composite
def neg_case(draw):
    g = draw(geometry_spec(small=True))
    neg = -draw(st.sampled_from([5e-324, 1e-12, 1e-3, 1.0, 1e6]))
    which = draw(st.sampled_from(["time", "freq", "both"]))
    other = draw(st.sampled_from([0.0, 0.5, 100.0]))
    tb = neg if which in ("time", "both") else other
    fb = neg if which in ("freq", "both") else other
    return {"g": g, "b1": [tb, fb], "b2": [tb, fb]}


def check_negative(spec, ctx):
    from soundevent import data, geometry

    g = data.geometry_validate(geom_dict(spec["g"]), mode="dict")
    tb, fb = spec["b1"]
    ctx.case(spec, nontrivial=True, labels=[g.type])
    calls = {
        "keywords": lambda: geometry.buffer_geometry(g, time_buffer=tb, freq_buffer=fb),
        "positional": lambda: geometry.buffer_geometry(g, tb, fb),
        "time positional, freq keyword": lambda: geometry.buffer_geometry(g, tb, freq_buffer=fb),
    }
    if fb == 0:
        calls["freq omitted"] = lambda: geometry.buffer_geometry(g, tb)
    if tb == 0:
        calls["time omitted"] = lambda: geometry.buffer_geometry(g, freq_buffer=fb)
    for how, call in calls.items():
        try:
            res = call()
        except ValueError:
            continue
        except Exception as e:
            ctx.fail(f"negative buffer ({how}) raised {type(e).__name__}, not ValueError", spec, repr(e), "ValueError", kind="wrong_exception")
            continue
        ctx.fail(f"buffer_geometry({g.type}) accepted a negative buffer ({tb}, {fb}) passed as {how}", spec, res.model_dump(), "ValueError", kind="false_accept")


SUBS = [
    Sub("top_edge", check, strategy=top_edge_case, quick=3000, thorough=60000, min_nontrivial=0.1),
    Sub("grow_and_stay_valid", check, strategy=case, quick=14000, thorough=350000, min_nontrivial=0.2),
    Sub("negative_rejected", check_negative, strategy=neg_case, quick=1500, thorough=20000),
    Sub("overlapping_members", check_overlap, strategy=overlap_case, quick=1500, thorough=30000, min_nontrivial=0.3),
]
