"""C17 - cropping and extending keep data on its coordinates and hit the requested size."""

from __future__ import annotations

import numpy as np
from hypothesis import strategies as st

from vf.core import Sub

PROP = "C17"
TECHNIQUE = "property-based testing: reference selection on a known lattice (data encode their own index) for crop_dim / extend_dim / crop_dim_width / extend_dim_width / adjust_dim_width, with step from attributes or estimated"
LEVEL_TEXT = (
    "1-D and 2-D arrays whose data encode their own index are cropped (ranges inside the axis, ends on coordinates or >= 0.1 step away, all four closedness "
    "combinations) and extended (ranges containing the axis, same end placements); the result must hold exactly the samples / lattice points in the interval, "
    "every original sample at its original coordinate, every new sample equal to the fill value; width adjustment must return exactly `width` samples with the "
    "original data at the start / centre / end on a regular axis, and reject width < 1. Exploration."
)
LEVEL_NOTE = "steps >= 1e-3 (>> the 1e-5 open-end epsilon); a lattice point lying exactly on an OPEN end of an extension interval is counted, not asserted (the implementation compares floats without a margin there); new coordinates may deviate from the lattice by 1e-6 step"
RULE = (
    "Hypothesis: axis start in {0, 0.1, 1, 3.7, 100.3}, step in {1, 0.5, 2.5, 0.1, 0.01, 1/3, 2^-10, 2^-9, 64/44100, 0.7}, length 1-60; step attribute present or absent (estimated, length >= 2); "
    "ends = coordinate +/- {0, 0.1, 0.5, 0.9} steps; widths 1..3x current; three positions. Non-trivial = fractional step with extension by >= 3 samples, or a closed/open end exactly on a lattice point."
)
ASSUMPTIONS = ["regular axes", "crop ranges lie inside the axis, extension ranges contain it"]

STARTS = [0.0, 0.1, 1.0, 3.7, 100.3]
STEPS = [1.0, 0.5, 2.5, 0.1, 0.01, 1 / 3, 2.0**-10, 2.0**-9, 64 / 44100, 0.7]
FILL = -1.0


def make_array(spec):
    import xarray as xr

    n, start, step = spec["n"], spec["start"], spec["step"]
    coords = start + np.arange(n) * step
    attrs = {"step": step} if spec["step_attr"] else {}
    tc = xr.Variable(dims="time", data=coords, attrs=attrs)
    if spec["two_d"]:
        data = (np.arange(n)[:, None] + 1) * 10.0 + np.arange(3)[None, :]
        arr = xr.DataArray(data, dims=("time", "channel"), coords={"time": tc, "channel": [0, 1, 2]})
        if spec["time_last"]:
            arr = arr.transpose("channel", "time")
    else:
        arr = xr.DataArray(np.arange(n) + 1.0, dims=("time",), coords={"time": tc})
    if spec.get("dtype") and not spec.get("nans"):
        arr = arr.astype(spec["dtype"])
    if spec.get("nans"):
        vals = arr.values.astype(float).copy()
        vals[(np.arange(vals.shape[arr.get_axis_num("time")]) % 3 == 1).reshape([-1 if d == "time" else 1 for d in arr.dims]) & np.ones(vals.shape, bool)] = np.nan
        arr = arr.copy(data=vals)
    return arr, coords


def embedded(ain, aout, fill):
    """Is `ain` embedded in `aout` along time: same coordinates and samples (NaN-aware) at one contiguous block,
    `fill` everywhere else?  Returns (offset, None) or (None, reason)."""
    ci, co = ain.coords["time"].values, aout.coords["time"].values
    vi, vo = ain.transpose("time", ...).values, aout.transpose("time", ...).values
    n, m = len(ci), len(co)
    if m < n:
        return None, f"output has {m} samples, input {n}"
    pos = np.where(co == ci[0])[0] if n else np.array([0])
    if len(pos) != 1:
        return None, "the first input coordinate does not occur exactly once in the output"
    o = int(pos[0])
    if o + n > m or not np.array_equal(co[o : o + n], ci):
        return None, "input coordinates are not a contiguous block of the output coordinates"
    if not np.array_equal(vo[o : o + n], vi, equal_nan=True):
        return None, "samples at the original coordinates changed"
    rest = np.concatenate([vo[:o], vo[o + n :]])
    if rest.size and not np.all(rest == fill):
        return None, "new samples do not all hold the fill value"
    return o, None


def data_index(arr):
    """recover the original index (1-based) of every sample along time; fill -> -1"""
    a = arr.transpose("time", ...).values
    if a.ndim == 2:
        col = a[:, 0]
        idx = np.where(col == FILL, -1, np.round(col / 10.0))
        for j in range(a.shape[1]):
            ok = np.where(col == FILL, a[:, j] == FILL, a[:, j] == idx * 10.0 + j)
            if not ok.all():
                return None
        return idx
    return np.where(a == FILL, -1, a)


@st.composite
def base(draw):
    step = draw(st.sampled_from(STEPS))
    step_attr = draw(st.booleans())
    n = draw(st.integers(1 if step_attr else 2, 60))
    return {"start": draw(st.sampled_from(STARTS)), "step": step, "n": n, "step_attr": step_attr, "two_d": draw(st.booleans()), "time_last": draw(st.booleans()), "nans": False}


@st.composite
def crop_case(draw):
    s = draw(base())
    n = s["n"]
    i, j = sorted([draw(st.integers(0, n - 1)), draw(st.integers(0, n - 1))])
    oi = draw(st.sampled_from([0.0, 0.0, 0.1, 0.5, 0.9]))
    oj = draw(st.sampled_from([0.0, 0.0, -0.1, -0.5, -0.9]))
    if i == n - 1:
        oi = 0.0
    if j == 0:
        oj = 0.0
    s.update({"i": i, "j": j, "oi": oi, "oj": oj, "left_closed": draw(st.booleans()), "right_closed": draw(st.booleans()), "none_start": draw(st.integers(0, 5)) == 0, "none_stop": draw(st.integers(0, 5)) == 0})
    return s


DIM_NAMES = ["frequency", "x", "drop", "method", "tolerance", "indexers", "dim", "kwargs", "fill_value", "mode", "time_2", "t"]


def renamed_agrees(ctx, spec, what, fn, arr, out, *args, **kw):
    """The operation is about the named dimension, whatever it is called: the same array with its time axis renamed (to a name that
    happens to be an xarray keyword as well) gives the same samples on the same coordinates."""
    import json
    import zlib

    name = DIM_NAMES[zlib.crc32(json.dumps(spec, sort_keys=True, default=str).encode()) % len(DIM_NAMES)]
    try:
        r = fn(arr.rename({"time": name}), name, *args, **kw)
    except Exception as e:  # noqa: BLE001
        ctx.fail(f"{what} on a dimension named {name!r} raised {type(e).__name__}: {str(e)[:160]} (on 'time' it returns)", spec, repr(e)[:200], None, kind="dim_name")
        return
    if name not in r.dims:
        ctx.fail(f"{what} on a dimension named {name!r}: the result has dimensions {r.dims}", spec, list(r.dims), None, kind="dim_name")
        return
    r = r.rename({name: "time"}).transpose(*out.dims)
    if r.shape != out.shape or not np.array_equal(r.values, out.values, equal_nan=True) or not np.array_equal(r.coords["time"].values, out.coords["time"].values):
        ctx.fail(f"{what} on a dimension named {name!r} gives {r.sizes['time']} samples, on the same axis named 'time' {out.sizes['time']}", spec, r.coords["time"].values.tolist()[:5], out.coords["time"].values.tolist()[:5], kind="dim_name")
    ctx.label("renamed_dimension")


def check_crop(spec, ctx):
    from soundevent import arrays

    arr, coords = make_array(spec)
    lo = coords[spec["i"]] + spec["oi"] * spec["step"]
    hi = coords[spec["j"]] + spec["oj"] * spec["step"]
    if lo > hi:
        lo, hi = hi, lo
    lo, hi = max(lo, coords[0]), min(hi, coords[-1])
    kw = {"left_closed": spec["left_closed"], "right_closed": spec["right_closed"]}
    lc, rc = spec["left_closed"], spec["right_closed"]
    if not spec["none_start"]:
        kw["start"] = float(lo)
    else:
        lo, lc = coords[0], True
    if not spec["none_stop"]:
        kw["stop"] = float(hi)
    else:
        hi, rc = coords[-1], True
    on_end = bool(np.any(coords == lo) or np.any(coords == hi))
    exp = [k + 1 for k, c in enumerate(coords) if (c > lo or (lc and c == lo)) and (c < hi or (rc and c == hi))]
    ctx.case(spec, nontrivial=on_end, labels=["lc" if lc else "lo", "rc" if rc else "ro", "on_end" if on_end else "off_end", "attr" if spec["step_attr"] else "estimated", "2d" if spec["two_d"] else "1d"])
    from vf.core import snapshot

    before = snapshot(arr)
    out = ctx.call(spec, f"crop_dim({kw})", arrays.crop_dim, arr, "time", **kw)
    ctx.unchanged(spec, "crop_dim: the input array", before, arr)
    renamed_agrees(ctx, spec, "crop_dim", arrays.crop_dim, arr, out, **kw)
    # two threads cropping the same array to two ranges: this call is suspended at lines inside the library while the other runs
    ident = lambda x, y: x.identical(y)  # noqa: E731
    ctx.interleave(spec, "crop_dim", lambda: arrays.crop_dim(arr, "time", **kw), lambda: arrays.crop_dim(arr, "time", start=float(coords[0]), stop=float(coords[len(coords) // 2]), right_closed=True), same=ident, every=6, max_pauses=24)
    # positional form (documented order: arr, dim, start, stop, right_closed, left_closed) and numpy scalars
    pos = arrays.crop_dim(arr, "time", kw.get("start"), kw.get("stop"), kw.get("right_closed", False), kw.get("left_closed", True))
    nps = arrays.crop_dim(arr, "time", **{k: (np.float64(v) if isinstance(v, float) else v) for k, v in kw.items()})
    if not pos.identical(out) or not nps.identical(out):
        ctx.fail("crop_dim written positionally / with numpy scalars differs from the keyword call", spec, None, None, kind="call_style")
    if not arrays.crop_dim(arr, arrays.Dimensions.time, **kw).identical(out):
        ctx.fail("crop_dim with the dimension given as Dimensions.time differs from the call with 'time'", spec, None, None, kind="call_style")
    # cropping goes by the coordinate labels: on an axis that is NOT evenly spaced (octave bands, custom bin edges; no step attribute)
    # the same interval rule holds
    import xarray as xr

    irr = np.array(coords, dtype=float)
    for k_ in range(1, irr.size - 1):  # the first and the last coordinate stay; interior ones move by 0 / 30 / 60 % of a step
        irr[k_] = coords[k_] + 0.3 * (k_ % 3) * (coords[k_ + 1] - coords[k_])
    arr_i = xr.DataArray(np.arange(1, irr.size + 1, dtype=float), dims=("time",), coords={"time": irr})
    out_i = ctx.call(spec, "crop_dim(unevenly spaced axis)", arrays.crop_dim, arr_i, "time", **kw)
    lo_i, hi_i = kw.get("start", irr[0]), kw.get("stop", irr[-1])
    lc_i, rc_i = kw.get("left_closed", True), kw.get("right_closed", False) if "stop" in kw else True
    if "start" not in kw:
        lc_i = True
    exp_i = [k + 1 for k, c_ in enumerate(irr) if (c_ > lo_i or (lc_i and c_ == lo_i)) and (c_ < hi_i or (rc_i and c_ == hi_i))]
    eps_zone = [c_ for c_ in irr if 0 < abs(c_ - lo_i) <= 2e-5 or 0 < abs(c_ - hi_i) <= 2e-5]
    if not eps_zone and [int(x) for x in out_i.values.tolist()] != exp_i:
        ctx.fail(f"crop_dim on an unevenly spaced axis kept samples {[int(x) for x in out_i.values.tolist()][:5]}.. ({out_i.sizes['time']}), the interval holds {exp_i[:5]}.. ({len(exp_i)})", spec, [int(x) for x in out_i.values.tolist()], exp_i, kind="selection_irregular")
    if lc and not rc:  # documented defaults: left_closed=True, right_closed=False
        kw_d = {k: v for k, v in kw.items() if k in ("start", "stop")}
        if not arrays.crop_dim(arr, "time", **kw_d).identical(out) and not (spec["none_start"] or spec["none_stop"]):
            ctx.fail("crop_dim without closedness flags differs from (left_closed=True, right_closed=False)", spec, None, None, kind="defaults")
    idx = data_index(out)
    if idx is None:
        ctx.fail("crop_dim scrambled data across channels", spec, None, None, kind="data")
    got = [int(v) for v in idx]
    if got != exp:
        ctx.fail(f"crop_dim([{lo}, {hi}] left_closed={lc} right_closed={rc}) kept samples {got[:3]}..{got[-3:]} ({len(got)}), the interval holds {exp[:3]}..{exp[-3:]} ({len(exp)})", spec, got, exp, kind="selection")
    if not np.array_equal(out.coords["time"].values, coords[[e - 1 for e in exp]] if exp else np.array([])):
        ctx.fail("crop_dim moved data off its coordinates", spec, out.coords["time"].values.tolist(), None, kind="coords")


@st.composite
def extend_case(draw):
    s = draw(base())
    a = draw(st.integers(0, 12))
    b = draw(st.integers(0, 12))
    oa = draw(st.sampled_from([0.0, 0.0, 0.1, 0.5, 0.9]))
    ob = draw(st.sampled_from([0.0, 0.0, 0.1, 0.5, 0.9]))
    s.update({"a": a, "b": b, "oa": oa, "ob": ob, "left_closed": draw(st.booleans()), "right_closed": draw(st.booleans()), "none_start": draw(st.integers(0, 5)) == 0, "none_stop": draw(st.integers(0, 5)) == 0})
    s["nans"] = draw(st.integers(0, 3)) == 0
    s["then"] = draw(st.sampled_from([None, None, "extend_more", "crop_back_extend_less"]))
    s["a2"], s["b2"] = draw(st.integers(1, 6)), draw(st.integers(1, 6))
    return s


def check_extend(spec, ctx):
    from soundevent import arrays

    arr, coords = make_array(spec)
    step, n = spec["step"], spec["n"]
    lo = coords[0] - (spec["a"] + spec["oa"]) * step
    hi = coords[-1] + (spec["b"] + spec["ob"]) * step
    kw = {"left_closed": spec["left_closed"], "right_closed": spec["right_closed"], "fill_value": FILL}
    if not spec["none_start"]:
        kw["start"] = float(lo)
    if not spec["none_stop"]:
        kw["stop"] = float(hi)
    # expected number of new lattice points on each side; a point exactly on an open end is borderline
    def side(k, off, closed, given):
        if not given:
            return 0, 0
        if off == 0.0:
            return (k, k) if closed else (max(k - 1, 0), k)  # closed end on a lattice point: included; open: unasserted
        return k, k

    left_lo, left_hi = side(spec["a"], spec["oa"], spec["left_closed"], not spec["none_start"])
    right_lo, right_hi = side(spec["b"], spec["ob"], spec["right_closed"], not spec["none_stop"])
    on_lattice_end = (spec["oa"] == 0.0 and not spec["none_start"] and spec["a"] > 0) or (spec["ob"] == 0.0 and not spec["none_stop"] and spec["b"] > 0)
    frac_step = step not in (1.0, 0.5, 2.5)
    ctx.case(spec, nontrivial=(frac_step and spec["a"] + spec["b"] >= 3) or on_lattice_end, labels=["attr" if spec["step_attr"] else "estimated", "frac" if frac_step else "int", "on_lattice_end" if on_lattice_end else "off", "2d" if spec["two_d"] else "1d"])
    from vf.core import snapshot

    before = snapshot(arr)
    out = ctx.call(spec, f"extend_dim({kw})", arrays.extend_dim, arr, "time", **kw)
    ctx.unchanged(spec, "extend_dim: the input array", before, arr)
    renamed_agrees(ctx, spec, "extend_dim", arrays.extend_dim, arr, out, **kw)
    ident = lambda x, y: x.identical(y)  # noqa: E731
    ctx.interleave(spec, "extend_dim", lambda: arrays.extend_dim(arr, "time", **kw), lambda: arrays.extend_dim(arr, "time", start=float(coords[0]) - 2.5 * step, stop=float(coords[-1]) + 1.5 * step, fill_value=-FILL), same=ident, every=6, max_pauses=24)
    nps = arrays.extend_dim(arr, "time", **{k: (np.float64(v) if isinstance(v, float) else v) for k, v in kw.items()})
    if not nps.identical(out):
        ctx.fail("extend_dim called with numpy scalars differs from the call with Python floats", spec, None, None, kind="call_style")
    enm = arrays.extend_dim(arr, arrays.Dimensions.time, **kw)  # the library's own Dimensions member is a str equal to "time"
    if not enm.identical(out):
        ctx.fail("extend_dim with the dimension given as Dimensions.time differs from the call with 'time'", spec, None, None, kind="call_style")
    oc = out.coords["time"].values
    first, why = embedded(arr, out, FILL)
    if first is None:
        ctx.fail(f"extend_dim: {why}", spec, oc.tolist()[:8], coords.tolist()[:8], kind="originals")
    idx = [0] * len(oc)
    nl, nr = first, len(oc) - first - n
    if not (left_lo <= nl <= left_hi):
        ctx.fail(f"extend_dim added {nl} samples before the axis, the interval [{lo}.. holds {left_lo}..{left_hi} lattice points (start={kw.get('start')}, left_closed={spec['left_closed']})", spec, nl, [left_lo, left_hi], kind="count_left")
    if not (right_lo <= nr <= right_hi):
        ctx.fail(f"extend_dim added {nr} samples after the axis, the interval ..{hi}] holds {right_lo}..{right_hi} lattice points (stop={kw.get('stop')}, right_closed={spec['right_closed']})", spec, nr, [right_lo, right_hi], kind="count_right")
    ideal = coords[0] + (np.arange(len(idx)) - first) * step
    if len(oc) and np.max(np.abs(oc - ideal)) > 1e-6 * step:
        ctx.fail("new coordinates are off the axis lattice", spec, oc.tolist()[:5], ideal.tolist()[:5], kind="lattice")

    # second operation on the RESULT of the first (the result carries attributes written by extend_dim)
    then = spec.get("then")
    if then and len(oc) >= 2:
        if then == "crop_back_extend_less" and nr >= 2:
            mid = ctx.call(spec, "crop_dim(result back to the original range)", arrays.crop_dim, out, "time", start=float(coords[0]), stop=float(coords[-1]), right_closed=True)
            k = nr - 1  # extend again, to a stop BELOW the first stop
            stop2 = float(coords[-1] + (k + 0.5) * step)
            out2 = ctx.call(spec, "extend_dim(cropped result, smaller stop)", arrays.extend_dim, mid, "time", stop=stop2, fill_value=FILL)
            o2, why2 = embedded(mid, out2, FILL)
            if o2 is None:
                ctx.fail(f"crop then extend: {why2}", spec, None, None, kind="chained")
            elif len(out2.coords["time"]) - o2 - len(mid.coords["time"]) != k:
                ctx.fail(f"crop then extend to {stop2}: {len(out2.coords['time']) - o2 - len(mid.coords['time'])} samples added after the axis, the interval holds {k} lattice points", spec, None, k, kind="chained")
        elif then == "extend_more":
            a2, b2 = spec["a2"], spec["b2"]
            start2 = float(oc[0] - (a2 + 0.5) * step)
            stop2 = float(oc[-1] + (b2 + 0.5) * step)
            out2 = ctx.call(spec, "extend_dim(result, wider range)", arrays.extend_dim, out, "time", start=start2, stop=stop2, fill_value=FILL)
            o2, why2 = embedded(out, out2, FILL)
            c2 = out2.coords["time"].values
            if o2 is None:
                ctx.fail(f"second extend_dim: {why2}", spec, c2.tolist()[:6], oc.tolist()[:6], kind="chained")
            else:
                if o2 != a2 or len(c2) - o2 - len(oc) != b2:
                    ctx.fail(f"second extend_dim added {o2} / {len(c2) - o2 - len(oc)} samples, the interval holds {a2} / {b2} lattice points", spec, [o2, len(c2) - o2 - len(oc)], [a2, b2], kind="chained")
                ideal2 = coords[0] + (np.arange(len(c2)) - (o2 + first)) * step
                if np.max(np.abs(c2 - ideal2)) > 1e-6 * step:
                    ctx.fail("second extend_dim: new coordinates are off the axis lattice", spec, c2.tolist()[:5], ideal2.tolist()[:5], kind="chained")


@st.composite
def width_case(draw):
    s = draw(base())
    n = s["n"]
    s.update({"width": draw(st.one_of(st.integers(1, 3 * n + 2), st.sampled_from([n, n + 1, max(1, n - 1), 129]))), "position": draw(st.sampled_from(["start", "center", "end"])), "fn": draw(st.sampled_from(["adjust", "adjust", "specific"]))})
    s["nans"] = draw(st.integers(0, 3)) == 0
    s["dtype"] = draw(st.sampled_from([None, None, "int64", "uint8", "float32"]))
    s["fill"] = draw(st.sampled_from([FILL, FILL, 0.5, 1000.0]))
    return s


def check_width(spec, ctx):
    from soundevent import arrays

    arr, coords = make_array(spec)
    fill_v = spec.get("fill", -1.0)
    n, w, pos, step = spec["n"], spec["width"], spec["position"], spec["step"]
    if w < 1 or pos not in ("start", "center", "end"):
        raise ValueError("malformed spec")
    frac_step = step not in (1.0, 0.5, 2.5)
    ctx.case(spec, nontrivial=(w > n and frac_step) or w < n, labels=["grow" if w > n else ("shrink" if w < n else "same"), pos, "attr" if spec["step_attr"] else "estimated", "frac" if frac_step else "int"])
    from vf.core import snapshot

    before = snapshot(arr)
    if spec["fn"] == "specific" and w != n:
        fn = arrays.operations.extend_dim_width if w > n else arrays.operations.crop_dim_width
        kw = {"fill_value": fill_v} if w > n else {}
        out = ctx.call(spec, f"{fn.__name__}(width={w}, position={pos})", fn, arr, "time", w, position=pos, **kw)
    else:
        out = ctx.call(spec, f"adjust_dim_width(width={w}, position={pos})", arrays.operations.adjust_dim_width, arr, "time", w, fill_value=fill_v, position=pos)
    ctx.unchanged(spec, "adjust_dim_width: the input array", before, arr)
    renamed_agrees(ctx, spec, "adjust_dim_width", arrays.operations.adjust_dim_width, arr, out, w, fill_value=fill_v, position=pos)
    if w <= n:
        # the same samples on an axis that has no coordinate variable at all (the form the docstring examples use): cropping to a width is
        # a matter of positions
        bare = arr.drop_vars("time")
        for fn_b in (arrays.operations.adjust_dim_width,) + ((arrays.operations.crop_dim_width,) if w < n else ()):
            try:
                out_b = fn_b(bare, "time", w, position=pos)
            except Exception as e:  # noqa: BLE001
                ctx.fail(f"{fn_b.__name__}(width={w}, position={pos}) on an axis without coordinates raised {type(e).__name__}: {str(e)[:160]}", spec, repr(e)[:200], None, kind="no_coordinate_axis")
                break
            if out_b.sizes["time"] != w or not np.array_equal(out_b.transpose(*out.dims).values, out.values, equal_nan=True):
                ctx.fail(f"{fn_b.__name__}(width={w}, position={pos}) on an axis without coordinates returns {out_b.sizes['time']} samples / other samples than on the same data with coordinates ({out.sizes['time']})", spec, out_b.sizes["time"], w, kind="no_coordinate_axis")
        ctx.label("axis_without_coordinates")
    if pos == "start":  # documented defaults: position="start", fill_value=0
        d_out = arrays.operations.adjust_dim_width(arr, "time", w)
        if d_out.sizes["time"] != out.sizes["time"] or not np.array_equal(d_out.coords["time"].values, out.coords["time"].values):
            ctx.fail("adjust_dim_width without position differs from position='start'", spec, None, None, kind="defaults")
        if w > n and not np.all(d_out.transpose("time", ...).values[n:] == 0):
            ctx.fail("adjust_dim_width default fill value is not 0", spec, None, None, kind="defaults")
    if out.sizes["time"] != w:
        ctx.fail(f"width {w} requested on an axis of {n} samples (step {step}, position {pos}): got {out.sizes['time']} samples", spec, int(out.sizes["time"]), w, kind="width")
    oc = out.coords["time"].values
    if w >= n:
        extra = w - n
        offs = {"start": [0], "end": [extra], "center": sorted({extra // 2, extra - extra // 2})}[pos]
        o, why = embedded(arr, out, fill_v)
        if o is None or o not in offs:
            ctx.fail(f"extending to width {w} at '{pos}': original data not where requested ({why or 'offset ' + str(o)})", spec, o, offs, kind="placement")
        ideal = coords[0] + (np.arange(w) - o) * step
        if np.max(np.abs(oc - ideal)) > 1e-6 * step:
            ctx.fail("extended axis is not regular / original coordinates moved", spec, oc.tolist()[:6], ideal.tolist()[:6], kind="lattice")
    else:
        cut = n - w
        offs = {"start": [0], "end": [cut], "center": sorted({cut // 2, cut - cut // 2, max(0, n // 2 - w // 2)})}[pos]
        vi, vo = arr.transpose("time", ...).values, out.transpose("time", ...).values
        ok = any(np.array_equal(vo, vi[o : o + w], equal_nan=True) and np.array_equal(oc, coords[o : o + w]) for o in offs)
        if not ok:
            ctx.fail(f"cropping to width {w} at '{pos}': the result is not the requested block of the input (allowed offsets {offs})", spec, oc.tolist()[:6], None, kind="placement")


@st.composite
def badwidth_case(draw):
    s = draw(base())
    s.update({"width": draw(st.sampled_from([0, -1, -5])), "position": draw(st.sampled_from(["start", "center", "end"]))})
    return s


def check_badwidth(spec, ctx):
    from soundevent import arrays

    arr, _ = make_array(spec)
    ctx.case(spec, nontrivial=True, labels=[str(spec["width"])])
    try:
        out = arrays.operations.adjust_dim_width(arr, "time", spec["width"], position=spec["position"])
    except ValueError:
        return
    except Exception as e:  # noqa: BLE001
        ctx.fail(f"width {spec['width']} raised {type(e).__name__}, not ValueError", spec, repr(e), "ValueError", kind="wrong_exception")
        return
    ctx.fail(f"adjust_dim_width accepted width {spec['width']}", spec, int(out.sizes["time"]), "ValueError", kind="false_accept")


SUBS = [
    Sub("crop_dim", check_crop, strategy=crop_case, quick=5000, thorough=120000, min_nontrivial=0.2),
    Sub("extend_dim", check_extend, strategy=extend_case, quick=5000, thorough=120000, min_nontrivial=0.2),
    Sub("dim_width", check_width, strategy=width_case, quick=5000, thorough=150000, min_nontrivial=0.2),
    Sub("bad_width", check_badwidth, strategy=badwidth_case, quick=300, thorough=3000),
]
