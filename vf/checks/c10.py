"""C10 - crowsetta conversions preserve times, frequencies, labels and order."""

from __future__ import annotations

import math
import uuid as uuidlib
from fractions import Fraction as Fr

import numpy as np
from hypothesis import strategies as st

from vf.core import Sub
from vf.strategies import geom_dict, geometry_spec, ref_bounds

PROP = "C10"
TECHNIQUE = "property-based testing: reference model of the documented conversion (label cascades written from the docstrings, bounds from the coordinate walker, single scaling by the time-expansion factor) over generated elements and option combinations + export-after-import round trip"
LEVEL_TEXT = (
    "label_to_tags and label_from_tags are compared with reference cascades over all generated combinations of their options (function incl. one that raises ValueError, "
    "term/tag/key mappings hit or miss, explicit term/key, fallback, empty labels; seq function, select_by_key hit/miss, index incl. negative and >= len, value_only, "
    "label function / mapping, join separator). Import of segments (seconds or sample indices), boxes, sequences and annotations is checked for one annotation per element in order, "
    "exact onset/offset/frequencies with the time-expansion factor applied exactly once, and the tag cascade; export from all nine geometry types (and none) is checked for bounds, "
    "floor sample indices, the Nyquist cap, the error policy and order; export after import must reproduce the elements exactly. Exploration."
)
LEVEL_NOTE = "two option combinations that the docstring leaves open (explicit term or term_mapping hit together with a tag_mapping hit) are generated and counted but not asserted; floor(time x samplerate) accepts the float or the exact product"
RULE = (
    "Hypothesis strategies per converter; samplerates from the audio palette, time expansion in {0.5, 1, 2, 10}; labels from text incl. the empty marker; options drawn independently. "
    "Non-trivial = time expansion != 1, or at least two option switches off their defaults."
)
ASSUMPTIONS = ["crowsetta 4 objects", "segments/boxes have onset < offset and low < high (crowsetta's own constraints); labels are str"]

LABELS = ["a", "b", "song", "__empty__", "", "x:y", "A,B"]
KEYS = ["species", "call", "crowsetta", "k"]


def _term(k):
    from soundevent import data

    return data.term_from_key(k)


def _tag(k, v):
    from soundevent import data

    return data.Tag(term=_term(k), value=v)


# ---------------------------------------------------------------------------------------------
# label_to_tags


@st.composite
def l2t_case(draw):
    label = draw(st.one_of(st.sampled_from(LABELS), st.text(max_size=4)))
    opt = lambda s: draw(st.one_of(st.none(), s))  # noqa: E731
    hit = st.sampled_from(["hit", "miss"])
    return {
        "label": label,
        "tag_fn": draw(st.sampled_from(["none", "none", "single", "list", "raises", "empty_list"])),
        "tag_mapping": opt(hit), "tag_mapping_list": draw(st.booleans()),
        "term_mapping": opt(hit), "key_mapping": opt(hit),
        "key": opt(st.sampled_from(KEYS)), "term": opt(st.sampled_from(KEYS)),
        "fallback": opt(st.sampled_from(["fb", "crowsetta"])),
        "empty_labels": opt(st.sampled_from([["__empty__"], ["", "a"], []])),
    }


def l2t_kwargs(spec):
    label = spec["label"]
    other = label + "_other"
    kw = {}
    if spec["tag_fn"] == "single":
        kw["tag_fn"] = lambda l: _tag("fn", l.upper())
    elif spec["tag_fn"] == "list":
        kw["tag_fn"] = lambda l: [_tag("fn", l), _tag("fn2", "z")]
    elif spec["tag_fn"] == "empty_list":
        kw["tag_fn"] = lambda l: []  # the function's answer is "this label carries no tags" - an answer like any other
    elif spec["tag_fn"] == "raises":
        def fn(l):
            raise ValueError("no")
        kw["tag_fn"] = fn
    if spec["tag_mapping"]:
        val = [_tag("tm", "v1"), _tag("tm", "v2")] if spec["tag_mapping_list"] else _tag("tm", "v1")
        kw["tag_mapping"] = {(label if spec["tag_mapping"] == "hit" else other): val}
    if spec["term_mapping"]:
        kw["term_mapping"] = {(label if spec["term_mapping"] == "hit" else other): _term("mapped_term")}
    if spec["key_mapping"]:
        kw["key_mapping"] = {(label if spec["key_mapping"] == "hit" else other): "mapped_key"}
    if spec["key"] is not None:
        kw["key"] = spec["key"]
    if spec["term"] is not None:
        kw["term"] = _term("explicit_" + spec["term"])
    if spec["fallback"] is not None:
        kw["fallback"] = spec["fallback"]
    if spec["empty_labels"] is not None:
        kw["empty_labels"] = tuple(spec["empty_labels"])
    return kw


def ref_label_to_tags(spec):
    """Documented cascade. Returns (list of tags) or ('unspecified', [alternatives])."""
    label = spec["label"]
    empty = spec["empty_labels"] if spec["empty_labels"] is not None else ["__empty__"]
    if label in empty:
        return []
    if spec["tag_fn"] == "single":
        return [_tag("fn", label.upper())]
    if spec["tag_fn"] == "list":
        return [_tag("fn", label), _tag("fn2", "z")]
    if spec["tag_fn"] == "empty_list":
        return []
    term = _term("explicit_" + spec["term"]) if spec["term"] is not None else None
    if spec["term_mapping"] == "hit":
        term = _term("mapped_term")
    if spec["tag_mapping"] == "hit":
        mapped = [_tag("tm", "v1"), _tag("tm", "v2")] if spec["tag_mapping_list"] else [_tag("tm", "v1")]
        if term is None:
            return mapped
        from soundevent import data

        return ("unspecified", [mapped, [data.Tag(term=term, value=label)]])
    key = spec["key"]
    if term is None and spec["key_mapping"] == "hit":
        key = "mapped_key"
    if key is None:
        key = spec["fallback"] if spec["fallback"] is not None else "crowsetta"
    if term is None:
        term = _term(key)
    from soundevent import data

    return [data.Tag(term=term, value=label)]


def check_l2t(spec, ctx):
    from soundevent.io.crowsetta import label_to_tags

    kw = l2t_kwargs(spec)
    exp = ref_label_to_tags(spec)
    nondefault = sum(1 for k in ("tag_fn", "tag_mapping", "term_mapping", "key_mapping", "key", "term", "fallback", "empty_labels") if spec[k] not in (None, "none"))
    maps_before = {k: dict(v) for k, v in kw.items() if isinstance(v, dict)}
    got = ctx.call(spec, f"label_to_tags({spec['label']!r}, {sorted(kw)})", label_to_tags, spec["label"], **kw)
    if {k: dict(v) for k, v in kw.items() if isinstance(v, dict)} != maps_before:
        ctx.fail("label_to_tags modified a mapping argument", spec, None, None, kind="input_mutated")
    if label_to_tags(spec["label"], **kw) != got:
        ctx.fail("label_to_tags gives different tags when called again", spec, None, None, kind="not_repeatable")
    unspecified = isinstance(exp, tuple)
    ctx.case(spec, nontrivial=nondefault >= 2, labels=["unspecified" if unspecified else "specified", f"opts={min(nondefault, 4)}", "empty" if exp == [] else "tags"], out={"n": len(got)})
    if not isinstance(got, list):
        ctx.fail(f"label_to_tags returned {type(got).__name__}, not a list", spec, repr(got), None, kind="type")
    if unspecified:
        if got not in exp[1]:
            ctx.fail(f"label_to_tags({spec['label']!r}) matches neither reading of the open combination", spec, [str(t) for t in got], None, kind="cascade")
        return
    if got != exp:
        ctx.fail(
            f"label_to_tags({spec['label']!r}, options {sorted(kw)}) = {[(t.term.label, t.value) for t in got]}, the documented cascade gives {[(t.term.label, t.value) for t in exp]}",
            spec, [(t.term.label, t.value) for t in got], [(t.term.label, t.value) for t in exp], kind="cascade",
        )


# ---------------------------------------------------------------------------------------------
# label_from_tags


@st.composite
def t2l_case(draw):
    n = draw(st.integers(0, 4))
    tags = [[draw(st.sampled_from(KEYS)), draw(st.sampled_from(["a", "b", "", "x:y"]))] for _ in range(n)]
    opt = lambda s: draw(st.one_of(st.none(), s))  # noqa: E731
    return {
        "tags": tags,
        "seq_label_fn": draw(st.sampled_from([False, False, False, True])),
        "select_by_key": opt(st.sampled_from(KEYS + ["absent"])),
        "index": opt(st.integers(-9, 9)),
        "separator": opt(st.sampled_from([",", ";", " | ", ""])),
        "empty_label": opt(st.sampled_from(["__empty__", "none", ""])),
        "value_only": opt(st.booleans()),
        "label_fn": draw(st.sampled_from([False, False, True])),
        "label_mapping": opt(st.sampled_from(["hit_first", "miss", "lookalike"])),
        # the tags carry full vocabulary terms (name, label, definition) instead of key-derived ones
        "full_terms": draw(st.integers(0, 2)) == 0,
    }


def t2l_kwargs(spec, tags):
    kw = {}
    if spec["seq_label_fn"]:
        kw["seq_label_fn"] = lambda ts: "SEQ%d" % len(ts)
    for k in ("select_by_key", "index", "separator", "empty_label", "value_only"):
        if spec[k] is not None:
            kw[k] = spec[k]
    if spec["label_fn"]:
        kw["label_fn"] = lambda t: "F(" + t.value + ")"
    if spec["label_mapping"] is not None:
        kw["label_mapping"] = _label_mapping(spec, tags)
    return kw


def _label_mapping(spec, tags):
    if spec["label_mapping"] == "hit_first" and tags:
        return {tags[0]: "MAPPED"}
    if spec["label_mapping"] == "lookalike":
        # entries for the key-derived tags with the same label and value as the tags at hand: the very tags when these are key-derived,
        # other tags (another term) when they carry full vocabulary terms - a mapping applies to the tags it lists
        return {_tag(t.term.label, t.value): f"LOOKALIKE({t.value})" for t in tags} or {_tag("zzz", "zzz"): "MAPPED"}
    return {_tag("zzz", "zzz"): "MAPPED"}


def ref_label_from_tag(spec, tag, tags, force_value_only=False):
    if spec["label_fn"]:
        return "F(" + tag.value + ")"
    if spec["label_mapping"] is not None:
        for listed, lab in _label_mapping(spec, tags).items():
            if listed == tag:
                return lab
    if force_value_only or spec["value_only"]:
        return tag.value
    return f"{tag.term.label}:{tag.value}"


def ref_label_from_tags(spec, tags):
    if spec["seq_label_fn"]:
        return "SEQ%d" % len(tags)
    empty = spec["empty_label"] if spec["empty_label"] is not None else "__empty__"
    if not tags:
        return empty
    if spec["select_by_key"] is not None:
        tag = next((t for t in tags if t.term.label == spec["select_by_key"]), None)
        if tag is None:
            return empty
        return ref_label_from_tag(spec, tag, tags, force_value_only=True)
    if spec["index"] is not None:
        return ref_label_from_tag(spec, tags[spec["index"] % len(tags)], tags)
    sep = spec["separator"] if spec["separator"] is not None else ","
    return sep.join(ref_label_from_tag(spec, t, tags) for t in tags)


def check_t2l(spec, ctx):
    from soundevent.io.crowsetta import label_from_tags

    tags = [_tag(k, v) for k, v in spec["tags"]]
    if spec.get("full_terms"):
        from soundevent import data as _data

        tags = [_data.Tag(term=_data.Term(name=f"vocab:{k}", label=k, definition=f"{k} as the vocabulary defines it"), value=v) for k, v in spec["tags"]]
    kw = t2l_kwargs(spec, tags)
    exp = ref_label_from_tags(spec, tags)
    nondefault = sum(1 for k in ("select_by_key", "index", "separator", "empty_label", "value_only", "label_mapping") if spec[k] is not None) + int(spec["seq_label_fn"]) + int(spec["label_fn"])
    ctx.case(spec, nontrivial=nondefault >= 2, labels=[f"ntags={len(tags)}", f"opts={min(nondefault, 4)}", "select" if spec["select_by_key"] is not None else ("index" if spec["index"] is not None else "join")])
    from vf.core import snapshot

    before = (snapshot(tags), sorted(kw))
    got = ctx.call(spec, f"label_from_tags({len(tags)} tags, {sorted(kw)})", label_from_tags, tags, **kw)
    ctx.unchanged(spec, "label_from_tags: the tag list", before[0], tags)
    if label_from_tags(tags, **kw) != got:
        ctx.fail("label_from_tags gives a different label when called again", spec, None, got, kind="not_repeatable")
    if got != exp:
        ctx.fail(f"label_from_tags({[(t.term.label, t.value) for t in tags]}, options { {k: v for k, v in spec.items() if k != 'tags' and v not in (None, False)} }) = {got!r}, the documented cascade gives {exp!r}", spec, got, exp, kind="cascade")


# ---------------------------------------------------------------------------------------------
# import


def _recording(sr, te, channels=1):
    from soundevent import data

    # sample indices count frames: how many channels a frame has is none of the conversion's business
    return data.Recording(uuid=str(uuidlib.UUID(int=5)), path="r.wav", duration=100.0, channels=channels, samplerate=sr, time_expansion=te)


@st.composite
def import_case(draw):
    sr = draw(st.sampled_from([8000, 22050, 44100, 256000, 7919]))
    te = draw(st.sampled_from([1.0, 1.0, 0.5, 2.0, 10.0]))
    n = draw(st.integers(0, 5))
    elems = []
    for _ in range(n):
        a = draw(st.one_of(st.integers(0, 4000).map(lambda k: k / 64), st.floats(0.0, 60.0, allow_nan=False)))
        d = draw(st.one_of(st.integers(1, 640).map(lambda k: k / 64), st.floats(1e-3, 10.0, allow_nan=False)))
        lo = draw(st.one_of(st.integers(0, 100).map(lambda k: k * 100.0), st.floats(0.0, 20000.0, allow_nan=False)))
        bw = draw(st.one_of(st.integers(1, 100).map(lambda k: k * 50.0), st.floats(1.0, 20000.0, allow_nan=False)))
        if draw(st.integers(0, 4)) == 0:
            # a full-height selection: from 0 Hz to exactly the Nyquist frequency of the recording (as the file has it, or as the
            # time-expanded recording has it) - still a box with two frequencies
            lo, bw = 0.0, draw(st.sampled_from([sr / 2, sr / 2 / te, sr / 2]))
        elems.append({"onset": a, "offset": a + d, "low": lo, "high": lo + bw, "label": draw(st.sampled_from(LABELS)), "seconds": draw(st.sampled_from([True, True, False]))})
    return {"sr": sr, "te": te, "adjust": draw(st.sampled_from([True, True, False])), "kind": draw(st.sampled_from(["segment", "bbox", "sequence", "annotation_bbox", "annotation_seq"])), "elems": elems,
            "key": draw(st.one_of(st.none(), st.sampled_from(KEYS)))}


def check_import(spec, ctx):
    import crowsetta
    from soundevent import data
    from soundevent.io import crowsetta as sec

    sr, te = spec["sr"], spec["te"]
    rec = _recording(sr, te, channels=[1, 2, 4][len(spec["elems"]) % 3])
    kind = spec["kind"]
    elems = spec["elems"]
    file_sr = Fr(sr) / Fr(te)
    kw = {"adjust_time_expansion": spec["adjust"]}
    if spec["key"] is not None:
        kw["key"] = spec["key"]
    nontrivial = te != 1.0 or (spec["key"] is not None and not spec["adjust"])
    if kind in ("sequence", "annotation_seq") and elems:
        # crowsetta sequences hold either seconds or sample indices for all segments
        elems = [dict(e, seconds=elems[0]["seconds"]) for e in elems]

    def segment(e):
        if e["seconds"]:
            return crowsetta.Segment.from_keyword(label=e["label"], onset_s=e["onset"], offset_s=e["offset"])
        return crowsetta.Segment.from_keyword(label=e["label"], onset_sample=int(e["onset"] * 1000) + 1, offset_sample=int(e["offset"] * 1000) + 2)

    def exp_interval(e):
        if e["seconds"]:
            s, t = e["onset"], e["offset"]
            if spec["adjust"] and te != 1:
                s, t = s / te, t / te
            return s, t, 0.0
        s, t = Fr(int(e["onset"] * 1000) + 1) / file_sr, Fr(int(e["offset"] * 1000) + 2) / file_sr
        if spec["adjust"] and te != 1:
            s, t = s / Fr(te), t / Fr(te)
        return float(s), float(t), 1e-12

    def exp_tags(e):
        if e["label"] == "__empty__":
            return []
        return [_tag(spec["key"] if spec["key"] is not None else "crowsetta", e["label"])]

    def check_ann(ann, e, box):
        if not isinstance(ann, data.SoundEventAnnotation):
            ctx.fail("import did not return a SoundEventAnnotation", spec, type(ann).__name__, None, kind="type")
        g = ann.sound_event.geometry
        if ann.sound_event.recording != rec:
            ctx.fail("imported sound event belongs to another recording", spec, None, None, kind="recording")
        if box:
            s, t, lo, hi = e["onset"], e["offset"], e["low"], e["high"]
            if spec["adjust"] and te != 1:
                s, t, lo, hi = s / te, t / te, lo * te, hi * te
            if g.type != "BoundingBox" or list(g.coordinates) != [s, lo, t, hi]:
                ctx.fail(f"bbox import: geometry {g.type} {g.coordinates}, expected BoundingBox {[s, lo, t, hi]} (time expansion {te}, adjust={spec['adjust']})", spec, g.coordinates, [s, lo, t, hi], kind="import_geometry")
        else:
            s, t, rel = exp_interval(e)
            ok = g.type == "TimeInterval" and abs(g.coordinates[0] - s) <= rel * max(1.0, abs(s)) and abs(g.coordinates[1] - t) <= rel * max(1.0, abs(t))
            if not ok:
                ctx.fail(f"segment import: geometry {g.type} {g.coordinates}, expected TimeInterval {[s, t]} (seconds={e['seconds']}, time expansion {te}, adjust={spec['adjust']})", spec, g.coordinates, [s, t], kind="import_geometry")
        if ann.tags != exp_tags(e):
            ctx.fail(f"imported tags {[(t_.term.label, t_.value) for t_ in ann.tags]} for label {e['label']!r}", spec, None, None, kind="import_tags")

    if kind in ("segment", "bbox"):
        if not elems:
            ctx.case(spec, nontrivial=False, labels=[kind, "empty"])
            return
        e = elems[0]
        ctx.case(spec, nontrivial=nontrivial, labels=[kind, f"te={te}", "adjust" if spec["adjust"] else "noadjust", "seconds" if e["seconds"] else "samples"])
        if kind == "segment":
            ann = ctx.call(spec, "segment_to_annotation", sec.segment_to_annotation, segment(e), rec, **kw)
            check_ann(ann, e, False)
            # a segment whose two ends come in different units (one in seconds, the other only as a sample index): each end follows
            # its own rule
            e_sec, e_smp = dict(e, seconds=True), dict(e, seconds=False)
            (s_sec, t_sec, _), (s_smp, t_smp, rel) = exp_interval(e_sec), exp_interval(e_smp)
            for how, seg_m, want in (
                ("onset in seconds, offset as sample index", crowsetta.Segment(label=e["label"], onset_s=e["onset"], offset_s=None, onset_sample=None, offset_sample=int(e["offset"] * 1000) + 2), (s_sec, t_smp)),
                ("onset as sample index, offset in seconds", crowsetta.Segment(label=e["label"], onset_s=None, offset_s=e["offset"], onset_sample=int(e["onset"] * 1000) + 1, offset_sample=None), (s_smp, t_sec)),
            ):
                if not want[0] < want[1]:
                    continue
                am = ctx.call(spec, f"segment_to_annotation({how})", sec.segment_to_annotation, seg_m, rec, **kw)
                gm = am.sound_event.geometry
                if gm.type != "TimeInterval" or any(abs(a_ - b_) > 1e-12 * max(1.0, abs(b_)) for a_, b_ in zip(gm.coordinates, want)):
                    ctx.fail(f"segment import ({how}): geometry {gm.type} {gm.coordinates}, expected TimeInterval {list(want)}", spec, gm.coordinates, list(want), kind="import_geometry")
        else:
            ann = ctx.call(spec, "bbox_to_annotation", sec.bbox_to_annotation, crowsetta.BBox(onset=e["onset"], offset=e["offset"], low_freq=e["low"], high_freq=e["high"], label=e["label"]), rec, **kw)
            check_ann(ann, e, True)
        return
    ctx.case(spec, nontrivial=nontrivial and len(elems) >= 2, labels=[kind, f"te={te}", "adjust" if spec["adjust"] else "noadjust", f"n={len(elems)}"])
    if kind == "sequence":
        if not elems:
            return
        seq = crowsetta.Sequence.from_segments([segment(e) for e in elems])
        anns = ctx.call(spec, "sequence_to_annotations", sec.sequence_to_annotations, seq, rec, **kw)
        if len(anns) != len(elems):
            ctx.fail(f"{len(anns)} annotations for {len(elems)} segments", spec, len(anns), len(elems), kind="count")
        for ann, e in zip(anns, elems):
            check_ann(ann, e, False)
        return
    if kind == "annotation_bbox":
        # zero boxes: crowsetta then sets neither .bboxes nor .seq; the import must give a clip annotation without sound events
        annot = crowsetta.Annotation(annot_path="x.csv", notated_path=rec.path, bboxes=[crowsetta.BBox(onset=e["onset"], offset=e["offset"], low_freq=e["low"], high_freq=e["high"], label=e["label"]) for e in elems])
        ca = ctx.call(spec, "annotation_to_clip_annotation(bboxes)", sec.annotation_to_clip_annotation, annot, recording=rec, **kw)
        box = True
    else:
        if not elems:
            return
        annot = crowsetta.Annotation(annot_path="x.csv", notated_path=rec.path, seq=crowsetta.Sequence.from_segments([segment(e) for e in elems]))
        ca = ctx.call(spec, "annotation_to_clip_annotation(seq)", sec.annotation_to_clip_annotation, annot, recording=rec, **kw)
        box = False
        if len(ca.sequences) != 1 or [s.uuid for s in ca.sequences[0].sequence.sound_events] != [a.sound_event.uuid for a in ca.sound_events]:
            ctx.fail("sequence annotation does not list the imported sound events in order", spec, None, None, kind="sequence")
    if len(ca.sound_events) != len(elems):
        ctx.fail(f"{len(ca.sound_events)} annotations for {len(elems)} elements", spec, len(ca.sound_events), len(elems), kind="count")
    for ann, e in zip(ca.sound_events, elems):
        check_ann(ann, e, box)
    if ca.clip.recording != rec or ca.clip.start_time != 0 or ca.clip.end_time != rec.duration:
        ctx.fail("clip of the imported annotation does not span the recording", spec, None, None, kind="clip")
    # the recording left out: it is then read from the annotation's notated_path, with recording_kwargs handed to Recording.from_file
    # (the documented way to say that the file is time-expanded) - the same import as with that recording passed explicitly
    if float(sr / te).is_integer() and 1000 <= sr / te <= 400000:
        import os

        import soundfile as sf

        from vf.checks.c15 import scratch

        wav = os.path.join(scratch(), f"c10_{int(sr / te)}.wav")
        if not os.path.exists(wav):
            sf.write(wav, np.zeros(int(sr / te) // 4, dtype=np.int16), int(sr / te), subtype="PCM_16")
        annot_f = crowsetta.Annotation(annot_path="x.csv", notated_path=wav, **({"bboxes": getattr(annot, "bboxes", [])} if box else {"seq": annot.seq}))
        rec_f = data.Recording.from_file(wav, time_expansion=te, compute_hash=False)
        want_f = sec.annotation_to_clip_annotation(annot_f, recording=rec_f, **kw)
        got_f = ctx.call(spec, "annotation_to_clip_annotation(recording=None, recording_kwargs={time_expansion})", sec.annotation_to_clip_annotation, annot_f, recording=None, recording_kwargs={"time_expansion": te, "compute_hash": False}, **kw)
        geo = lambda c: [(a.sound_event.geometry.type, a.sound_event.geometry.coordinates, sorted((t.term.name, t.value) for t in a.tags)) for a in c.sound_events]  # noqa: E731
        if geo(got_f) != geo(want_f) or (got_f.clip.recording.samplerate, got_f.clip.recording.time_expansion, got_f.clip.end_time) != (rec_f.samplerate, rec_f.time_expansion, want_f.clip.end_time):
            ctx.fail(f"import with the recording read from the file (time_expansion={te} in recording_kwargs) differs from the import with Recording.from_file(path, time_expansion={te}) passed explicitly", spec, geo(got_f)[:2], geo(want_f)[:2], kind="recording_from_file")
        if rec_f.samplerate == sr and geo(want_f) != geo(ca):
            ctx.fail("import against Recording.from_file(...) differs from the import against an equal hand-built recording", spec, geo(want_f)[:2], geo(ca)[:2], kind="recording_from_file")
        ctx.label("recording_from_notated_path")


# ---------------------------------------------------------------------------------------------
# export


@st.composite
def export_case(draw):
    sr = draw(st.sampled_from([8000, 22050, 44100, 256000, 7919]))
    n = draw(st.integers(0, 5))
    items = []
    for _ in range(n):
        if draw(st.integers(0, 2)) == 0:
            # times whose product with the samplerate lands on or a hair below an integer (k/sr, decimals)
            k1 = draw(st.integers(0, 200000))
            a = draw(st.one_of(st.just(k1 / sr), st.sampled_from([0.7, 2.3, 0.29, 0.1, 1.1, 4.35, 0.57]), st.integers(0, 90000).map(lambda k: k / 1000)))
            b = a + draw(st.one_of(st.integers(1, 50000).map(lambda k: k / sr), st.sampled_from([0.7, 2.3, 0.29, 0.1])))
            g = {"type": "TimeInterval", "coordinates": [a, b]} if draw(st.booleans()) else {"type": "BoundingBox", "coordinates": [a, 100.0, b, 900.0]}
        else:
            g = draw(st.one_of(st.none(), geometry_spec(small=True, allow_degenerate=True)))
        if g is not None:
            g = {"type": g["type"], "coordinates": g["coordinates"]}
        items.append({"geometry": g, "tags": [[draw(st.sampled_from(KEYS)), draw(st.sampled_from(["a", "b", "c"]))] for _ in range(draw(st.integers(0, 3)))]})
    return {
        # the export never looks at the time expansion: sample indices and the Nyquist cap follow Recording.samplerate whatever it is
        "te": draw(st.sampled_from([1.0, 1.0, 10.0, 2.5, 0.5, 3.0, 20.0])), "index_np": draw(st.booleans()),
        "sr": sr, "items": items, "fmt": draw(st.sampled_from(["segment", "bbox", "sequence", "annotation_bbox", "annotation_seq"])),
        "cast": draw(st.sampled_from([None, True, False])), "ignore_errors": draw(st.sampled_from([None, True, False])),
        "raise_on_time": draw(st.sampled_from([None, True, False])), "value_only": draw(st.sampled_from([None, True])), "index": draw(st.sampled_from([None, 0, -1, 5, -7])),
        "select_by_key": draw(st.sampled_from([None, None, None, "species", "absent"])), "separator": draw(st.sampled_from([None, None, ";", ""])),
        "label_fn": draw(st.sampled_from([False, False, False, True])), "empty_label": draw(st.sampled_from([None, None, "NONE"])),
    }


def check_export(spec, ctx):
    import crowsetta
    from soundevent import data
    from soundevent.io import crowsetta as sec

    sr = spec["sr"]
    rec = _recording(sr, spec.get("te", 1.0), channels=[1, 2, 4, 1][len(spec["items"]) % 4] if spec["items"] else 2)
    anns = []
    for i, it in enumerate(spec["items"]):
        g = data.geometry_validate(it["geometry"], mode="dict") if it["geometry"] else None
        se = data.SoundEvent(uuid=str(uuidlib.UUID(int=100 + i)), recording=rec, geometry=g)
        anns.append(data.SoundEventAnnotation(uuid=str(uuidlib.UUID(int=200 + i)), sound_event=se, tags=[_tag(k, v) for k, v in it["tags"]], created_on="2020-01-01T00:00:00"))
    fmt = spec["fmt"]
    box = fmt in ("bbox", "annotation_bbox")
    lab_kw = {}
    if spec["value_only"] is not None:
        lab_kw["value_only"] = spec["value_only"]
    if spec["index"] is not None:
        # an index as it comes out of numpy code (np.argmax, an integer array) is the same index
        lab_kw["index"] = np.int64(spec["index"]) if spec.get("index_np") else spec["index"]
    for k in ("select_by_key", "separator", "empty_label"):
        if spec.get(k) is not None:
            lab_kw[k] = spec[k]
    if spec.get("label_fn"):
        lab_kw["label_fn"] = lambda t: "F(" + t.value + ")"
    t2l_spec = {"seq_label_fn": False, "select_by_key": spec.get("select_by_key"), "index": spec["index"], "separator": spec.get("separator"), "empty_label": spec.get("empty_label"),
                "value_only": spec["value_only"], "label_fn": bool(spec.get("label_fn")), "label_mapping": None}
    cast_default = True
    cast = cast_default if spec["cast"] is None else spec["cast"]
    rot_default = True if fmt == "bbox" or fmt == "annotation_bbox" else None
    rot = (True if spec["raise_on_time"] is None else spec["raise_on_time"]) if box else None

    def expected(ann):
        """('ok', values) or ('error',)"""
        g = ann.sound_event.geometry
        if g is None:
            return ("error",)
        b = ref_bounds(g.type, g.coordinates)
        label = ref_label_from_tags(t2l_spec, ann.tags)
        if box:
            if g.type != "BoundingBox" and not cast:
                return ("error",)
            if g.type in ("TimeInterval", "TimeStamp") and rot:
                return ("error",)
            hi = min(b[3], sr / 2)
            if not (b[0] < b[2]) or not (b[1] < hi):
                return ("error_or_crowsetta",)
            return ("ok", (b[0], b[2], b[1], hi, label))
        if g.type != "TimeInterval" and not cast:
            return ("error",)
        return ("ok", (b[0], b[2], label))

    exps = [expected(a) for a in anns]
    nondefault = sum(1 for k in ("cast", "ignore_errors", "raise_on_time", "value_only", "index", "select_by_key", "separator", "empty_label") if spec.get(k) is not None) + int(bool(spec.get("label_fn")))
    ctx.case(spec, nontrivial=nondefault >= 2, labels=[fmt, f"n={len(anns)}", f"opts={min(nondefault, 4)}", "has_error" if any(e[0] != "ok" for e in exps) else "all_ok"])

    def check_segment(seg, ann, e):
        s, t, label = e[1]
        if seg.onset_s != s or seg.offset_s != t:
            ctx.fail(f"segment onset/offset {seg.onset_s}, {seg.offset_s} != geometry time bounds {s}, {t}", spec, [seg.onset_s, seg.offset_s], [s, t], kind="export_times")
        for got, tm, nm in ((seg.onset_sample, s, "onset"), (seg.offset_sample, t, "offset")):
            if got not in (math.floor(tm * sr), math.floor(Fr(tm) * sr)):
                ctx.fail(f"{nm}_sample {got} is not floor({tm} x {sr}) = {math.floor(Fr(tm) * sr)}", spec, got, math.floor(Fr(tm) * sr), kind="export_samples")
        if seg.label != label:
            ctx.fail(f"segment label {seg.label!r}, cascade gives {label!r}", spec, seg.label, label, kind="export_label")

    def check_bbox(bb, ann, e):
        s, t, lo, hi, label = e[1]
        if (bb.onset, bb.offset, bb.low_freq, bb.high_freq) != (s, t, lo, hi):
            ctx.fail(f"bbox ({bb.onset}, {bb.offset}, {bb.low_freq}, {bb.high_freq}) != bounds with Nyquist cap ({s}, {t}, {lo}, {hi})", spec, [bb.onset, bb.offset, bb.low_freq, bb.high_freq], [s, t, lo, hi], kind="export_bbox")
        if bb.label != label:
            ctx.fail(f"bbox label {bb.label!r}, cascade gives {label!r}", spec, bb.label, label, kind="export_label")

    def single(fn, ann, e, **kw):
        try:
            out = fn(ann, **kw)
        except ValueError:
            if e[0] == "ok":
                ctx.fail(f"{fn.__name__} raised ValueError for a convertible {ann.sound_event.geometry.type}", spec, "ValueError", "converted", kind="false_error")
            return None
        except Exception as ex:  # noqa: BLE001
            ctx.fail(f"{fn.__name__} raised {type(ex).__name__}: {str(ex)[:120]}", spec, repr(ex)[:200], None, kind="wrong_exception")
            return None
        if e[0] == "error":
            ctx.fail(f"{fn.__name__} converted an event that must be refused (geometry {getattr(ann.sound_event.geometry, 'type', None)}, cast={cast}, raise_on_time={rot})", spec, None, "ValueError", kind="false_convert")
        return out

    if fmt in ("segment", "bbox"):
        if not anns:
            return
        kw = dict(lab_kw)
        if spec["cast"] is not None:
            kw["cast_to_bbox" if box else "cast_to_segment"] = spec["cast"]
        if box and spec["raise_on_time"] is not None:
            kw["raise_on_time_geometries"] = spec["raise_on_time"]
        out = single(sec.bbox_from_annotation if box else sec.segment_from_annotation, anns[0], exps[0], **kw)
        if out is not None and exps[0][0] == "ok":
            (check_bbox if box else check_segment)(out, anns[0], exps[0])
        return
    # list converters
    ignore = (False if fmt == "sequence" else True) if spec["ignore_errors"] is None else spec["ignore_errors"]
    kw = dict(lab_kw)
    if spec["ignore_errors"] is not None:
        kw["ignore_errors"] = spec["ignore_errors"]
    if fmt == "sequence":
        if spec["cast"] is not None:
            kw["cast_to_segment"] = spec["cast"]
        call = lambda: sec.sequence_from_annotations(anns, **kw)  # noqa: E731
    else:
        if spec["cast"] is not None:
            kw["cast_geometry"] = spec["cast"]
        if box and spec["raise_on_time"] is not None:
            kw["raise_on_time_geometries"] = spec["raise_on_time"]
        clip = data.Clip(uuid=str(uuidlib.UUID(int=9)), recording=rec, start_time=0.0, end_time=10.0)
        ca = data.ClipAnnotation(uuid=str(uuidlib.UUID(int=10)), clip=clip, sound_events=anns, created_on="2020-01-01T00:00:00")
        call = lambda: sec.annotation_from_clip_annotation(ca, "x.csv", "bbox" if box else "seq", **kw)  # noqa: E731
    definite_error = any(e[0] == "error" for e in exps)
    maybe_error = any(e[0] == "error_or_crowsetta" for e in exps)
    good = [(a, e) for a, e in zip(anns, exps) if e[0] == "ok"]
    if not box and not good:
        ctx.label("empty_sequence_not_asserted")
        try:
            call()
        except Exception:  # crowsetta may refuse an empty sequence
            pass
        return
    try:
        out = call()
    except ValueError:
        if ignore and not maybe_error:
            ctx.fail(f"{fmt}: raised ValueError although ignore_errors is set", spec, "ValueError", "skipped", kind="false_error")
        elif not ignore and not (definite_error or maybe_error):
            ctx.fail(f"{fmt}: raised ValueError although every event is convertible", spec, "ValueError", "converted", kind="false_error")
        return
    except Exception as ex:  # noqa: BLE001
        ctx.fail(f"{fmt}: raised {type(ex).__name__}: {str(ex)[:120]}", spec, repr(ex)[:200], None, kind="wrong_exception")
        return
    if definite_error and not ignore:
        ctx.fail(f"{fmt}: an unconvertible event was silently skipped although ignore_errors is off", spec, None, "ValueError", kind="false_convert")
    if maybe_error:
        ctx.label("zero_extent_not_asserted")
        return
    if fmt == "sequence":
        got = list(out.segments)
    elif box:
        got = list(getattr(out, "bboxes", None) or [])
    else:
        got = list(out.seq.segments)
    if len(got) != len(good):
        ctx.fail(f"{fmt}: {len(got)} elements exported, {len(good)} events are convertible", spec, len(got), len(good), kind="count")
    for o, (a, e) in zip(got, good):
        (check_bbox if box else check_segment)(o, a, e)


# ---------------------------------------------------------------------------------------------
# round trip


@st.composite
def roundtrip_case(draw):
    s = draw(import_case())
    s["te"] = 1.0
    for e in s["elems"]:
        e["seconds"] = True
        if e["label"] in ("__empty__", ""):
            e["label"] = "lab"
    s["kind"] = draw(st.sampled_from(["sequence", "annotation_bbox"]))
    return s


def check_roundtrip(spec, ctx):
    import crowsetta
    from soundevent.io import crowsetta as sec

    rec = _recording(spec["sr"], 1.0, channels=[1, 2, 3][len(spec.get("elems", [])) % 3])
    elems = spec["elems"]
    if any(not e["onset"] < e["offset"] or not e["low"] < e["high"] for e in elems) or spec["kind"] not in ("sequence", "annotation_bbox"):
        raise ValueError("malformed spec")
    ctx.case(spec, nontrivial=len(elems) >= 2, labels=[spec["kind"], f"n={len(elems)}"])
    if not elems:
        return
    if spec["kind"] == "sequence":
        seq = crowsetta.Sequence.from_segments([crowsetta.Segment.from_keyword(label=e["label"], onset_s=e["onset"], offset_s=e["offset"]) for e in elems])
        anns = sec.sequence_to_annotations(seq, rec)
        back = ctx.call(spec, "sequence_from_annotations(value_only)", sec.sequence_from_annotations, anns, value_only=True)
        got = [(s.onset_s, s.offset_s, s.label) for s in back.segments]
        exp = [(e["onset"], e["offset"], e["label"]) for e in elems]
    else:
        nyq = spec["sr"] / 2
        if any(not e["low"] < min(e["high"], nyq) or not e["onset"] < e["offset"] for e in elems):
            ctx.label("box_above_nyquist_not_asserted")
            return
        annot = crowsetta.Annotation(annot_path="x.csv", notated_path=rec.path, bboxes=[crowsetta.BBox(onset=e["onset"], offset=e["offset"], low_freq=e["low"], high_freq=e["high"], label=e["label"]) for e in elems])
        ca = sec.annotation_to_clip_annotation(annot, recording=rec)
        back = ctx.call(spec, "annotation_from_clip_annotation(bbox, value_only)", sec.annotation_from_clip_annotation, ca, "x.csv", "bbox", value_only=True, ignore_errors=False)
        got = [(b.onset, b.offset, b.low_freq, b.high_freq, b.label) for b in back.bboxes]
        exp = [(e["onset"], e["offset"], e["low"], min(e["high"], nyq), e["label"]) for e in elems]
    if got != exp:
        ctx.fail(f"export after import does not reproduce the elements: {got[:2]} != {exp[:2]}", spec, got, exp, kind="roundtrip")


SUBS = [
    Sub("label_to_tags", check_l2t, strategy=l2t_case, quick=8000, thorough=300000, min_nontrivial=0.3),
    Sub("label_from_tags", check_t2l, strategy=t2l_case, quick=8000, thorough=300000, min_nontrivial=0.3),
    Sub("import", check_import, strategy=import_case, quick=4000, thorough=100000, min_nontrivial=0.1),
    Sub("export", check_export, strategy=export_case, quick=4000, thorough=100000, min_nontrivial=0.1),
    Sub("roundtrip", check_roundtrip, strategy=roundtrip_case, quick=1500, thorough=40000, min_nontrivial=0.2),
]
