"""C12 - overlap predicates agree with exact interval arithmetic."""

from __future__ import annotations

import math
from fractions import Fraction as Fr

import numpy as np
from hypothesis import strategies as st

from vf.core import Sub
from vf.strategies import geom_dict, geometry_spec, ref_bounds

PROP = "C12"
RULE = (
    "Hypothesis-generated interval pairs / geometry pairs / clip placements. Intervals are built from "
    "a dyadic grid (k/64 scaled by a power of two: every difference and product in the predicate is exact "
    "in binary64, so touching / equal-to-threshold cases are hit exactly and exact agreement with a "
    "Fraction oracle is demanded) or from free floats (exact agreement demanded when the Fraction margin "
    "to the decision boundary exceeds 4 ulp of the largest operand, otherwise counted as borderline). "
    "Non-trivial = the exact margin is 0 (touching / overlap equal to threshold / edge-touching event) or the "
    "verdict flips when one endpoint moves by one grid step (grid class), or a decisive free-float case "
    "with a genuine partial overlap."
)
TECHNIQUE = 'property-based testing: Fraction reference predicate on a dyadic grid (exact boundary cases) + decisive/borderline free floats + symmetry/monotonicity laws'
LEVEL_TEXT = "Generated-input search against an exact-arithmetic oracle for intervals_overlap, have_temporal/frequency_overlap and is_in_clip; boundary cases (touching, overlap == threshold, event ending at clip start) are constructed exactly. Exploration: the verdict is 'held on everything generated'."
LEVEL_NOTE = 'trusts fractions.Fraction and the reference bounds walker (min/max over coordinate leaves); thresholds non-negative, intervals given start<=stop'
ASSUMPTIONS = [
    "intervals are given as (start, stop) with start <= stop and thresholds are non-negative (the documented domain)",
    "the signed overlap min(stops)-max(starts) is the 'length of the intersection' compared with the threshold; for disjoint intervals it is negative, so they never overlap",
]


def _mod():
    from soundevent import geometry

    return geometry


def exact_overlap(i1, i2, absolute=None, relative=None):
    (a, b), (c, d) = i1, i2
    a, b, c, d = Fr(a), Fr(b), Fr(c), Fr(d)
    ov = min(b, d) - max(a, c)
    thr = Fr(0)
    if absolute is not None:
        thr = Fr(absolute)
    if relative is not None:
        thr = Fr(relative) * min(b - a, d - c)
    return ov >= thr, ov - thr


@st.composite
def grid_interval_case(draw):
    scale = draw(st.sampled_from([2.0**-10, 2.0**-3, 1.0, 8.0, 1024.0]))
    off = draw(st.sampled_from([0.0, 0.0, 1.0, 100.0])) * scale
    ks = [draw(st.integers(0, 64)) for _ in range(4)]
    arrangement = draw(st.sampled_from(["free", "touch", "nested", "equal", "degenerate"]))
    a, b = sorted(ks[:2])
    c, d = sorted(ks[2:])
    if arrangement == "touch":
        c = b
        d = max(d, c)
    elif arrangement == "nested":
        c, d = sorted([draw(st.integers(a, b)), draw(st.integers(a, b))])
    elif arrangement == "equal":
        c, d = a, b
    elif arrangement == "degenerate":
        b = a
    if draw(st.booleans()):
        a, b, c, d = c, d, a, b
    mode = draw(st.sampled_from(["none", "abs", "rel", "abs_exact", "rel_exact"]))
    step = scale / 16
    i1 = [off + a * step, off + b * step]
    i2 = [off + c * step, off + d * step]
    thr = None
    ov = (min(b, d) - max(a, c)) * step
    if mode == "abs":
        thr = draw(st.integers(0, 40)) * step
    elif mode == "abs_exact":
        thr = max(ov, 0.0)
    elif mode == "rel":
        thr = draw(st.integers(0, 64)) / 64
    elif mode == "rel_exact":
        w = min(b - a, d - c)
        q = Fr(max(min(b, d) - max(a, c), 0), w) if w > 0 else Fr(0)
        # only keep exactly representable ratios (denominator a power of two); else fall back
        thr = float(q) if (q.denominator & (q.denominator - 1)) == 0 else draw(st.integers(0, 64)) / 64
    thr2 = None
    if mode.startswith("abs"):
        thr2 = thr + draw(st.integers(0, 8)) * step
    elif mode.startswith("rel"):
        thr2 = min(1.0, thr + draw(st.integers(0, 16)) / 64)
    return {"i1": i1, "i2": i2, "mode": mode[:3] if mode != "none" else "none", "thr": thr, "thr2": thr2, "step": step, "arr": arrangement}


def _call(fn, i1, i2, mode, thr):
    kw = {}
    if mode == "abs":
        kw["min_absolute_overlap"] = thr
    elif mode == "rel":
        kw["min_relative_overlap"] = thr
    return fn(tuple(i1), tuple(i2), **kw)


def check_grid(spec, ctx):
    f = _mod().intervals_overlap
    i1, i2, mode, thr = spec["i1"], spec["i2"], spec["mode"], spec["thr"]
    kw = {"absolute": thr} if mode == "abs" else ({"relative": thr} if mode == "rel" else {})
    exp, margin = exact_overlap(i1, i2, **kw)
    got = _call(f, i1, i2, mode, thr)
    got_sym = _call(f, i2, i1, mode, thr)
    # flips under one grid step?
    step = spec["step"]
    flips = False
    for di in (-step, step):
        j2 = [i2[0] + di, i2[1] + di]
        if j2[0] >= 0:
            e2, _ = exact_overlap(i1, j2, **kw)
            flips = flips or (e2 != exp)
    ctx.case(spec, nontrivial=(margin == 0 or flips), labels=[f"arr={spec['arr']}", f"mode={mode}", f"exp={exp}", "margin0" if margin == 0 else "marginN"], out={"got": got})
    if bool(got) != exp:
        ctx.fail(f"intervals_overlap{tuple(i1), tuple(i2)} mode={mode} thr={thr}: got {got}, exact answer {exp} (margin {float(margin)})", spec, got, exp, kind="value")
    if bool(got_sym) != bool(got):
        ctx.fail(f"intervals_overlap not symmetric: {got} vs swapped {got_sym}", spec, [got, got_sym], None, kind="symmetry")
    if not isinstance(got, (bool,)) and type(got).__name__ != "bool_":
        ctx.fail(f"intervals_overlap returned non-bool {type(got)}", spec, repr(got), "bool", kind="type")
    # other ways of writing the same call: thresholds passed positionally (documented order: interval1, interval2,
    # min_absolute_overlap, min_relative_overlap), intervals as lists, numbers as numpy scalars
    alts = {"lists": lambda: _call(lambda a, b, **k: f(list(a), list(b), **k), i1, i2, mode, thr),
            "numpy scalars": lambda: _call(lambda a, b, **k: f((np.float64(a[0]), np.float64(a[1])), (np.float64(b[0]), np.float64(b[1])), **{q: np.float64(v) for q, v in k.items()}), i1, i2, mode, thr)}
    if mode == "abs":
        alts["positional"] = lambda: f(tuple(i1), tuple(i2), thr)
    elif mode == "rel":
        alts["positional"] = lambda: f(tuple(i1), tuple(i2), None, thr)
    for how, call in alts.items():
        try:
            other = call()
        except Exception as e:
            ctx.fail(f"intervals_overlap written with {how} raised {type(e).__name__}: {str(e)[:120]}", spec, repr(e)[:200], bool(got), kind="call_style")
            continue
        if bool(other) != bool(got):
            ctx.fail(f"intervals_overlap written with {how} gives {other}, the plain call gives {got}", spec, bool(other), bool(got), kind="call_style")
    # monotone in the threshold: raising a threshold never turns False into True
    if mode != "none" and spec["thr2"] is not None:
        got2 = _call(f, i1, i2, mode, spec["thr2"])
        if bool(got2) and not bool(got):
            ctx.fail(f"not monotone: thr={thr} -> {got}, larger thr={spec['thr2']} -> {got2}", spec, [got, got2], None, kind="monotone")
        kw2 = {"absolute": spec["thr2"]} if mode == "abs" else {"relative": spec["thr2"]}
        exp2, _ = exact_overlap(i1, i2, **kw2)
        if bool(got2) != exp2:
            ctx.fail(f"intervals_overlap second threshold {spec['thr2']}: got {got2}, exact {exp2}", spec, got2, exp2, kind="value")
    elif mode == "none":
        # default == absolute threshold 0 == relative threshold 0
        for m in ("abs", "rel"):
            g = _call(f, i1, i2, m, 0.0)
            if bool(g) != exp:
                ctx.fail(f"threshold 0 ({m}) differs from default: {g} vs {exp}", spec, g, exp, kind="value")


@st.composite
def free_interval_case(draw):
    hi = draw(st.sampled_from([1e-3, 1.0, 1e3, 1e6]))
    fl = st.floats(0.0, hi, allow_nan=False, allow_infinity=False)
    a, b = sorted([draw(fl), draw(fl)])
    c, d = sorted([draw(fl), draw(fl)])
    mode = draw(st.sampled_from(["none", "abs", "rel"]))
    thr = None
    if mode == "abs":
        thr = draw(st.floats(0.0, hi, allow_nan=False))
    elif mode == "rel":
        thr = draw(st.floats(0.0, 1.0, allow_nan=False))
    return {"i1": [a, b], "i2": [c, d], "mode": mode, "thr": thr}


def check_free(spec, ctx):
    f = _mod().intervals_overlap
    i1, i2, mode, thr = spec["i1"], spec["i2"], spec["mode"], spec["thr"]
    kw = {"absolute": thr} if mode == "abs" else ({"relative": thr} if mode == "rel" else {})
    exp, margin = exact_overlap(i1, i2, **kw)
    big = max(abs(x) for x in i1 + i2 + [thr or 0.0])
    tol = 4 * math.ulp(big) if big > 0 else 0.0
    decisive = abs(margin) > tol
    got = _call(f, i1, i2, mode, thr)
    got_sym = _call(f, i2, i1, mode, thr)
    (a, b), (c, d) = i1, i2
    partial = max(a, c) < min(b, d) and not (a <= c and d <= b) and not (c <= a and b <= d)
    ctx.case(spec, nontrivial=decisive and partial, labels=["decisive" if decisive else "borderline", f"mode={mode}", f"exp={exp}"], out={"got": bool(got)})
    if bool(got_sym) != bool(got):
        ctx.fail(f"intervals_overlap not symmetric: {got} vs swapped {got_sym}", spec, [got, got_sym], None, kind="symmetry")
    if decisive and bool(got) != exp:
        ctx.fail(f"intervals_overlap{tuple(i1), tuple(i2)} mode={mode} thr={thr}: got {got}, exact answer {exp} (margin {float(margin)})", spec, got, exp, kind="value")


@st.composite
def ulp_boundary_case(draw):
    """Intersection lengths within a few ulps of the threshold at large coordinates (long deployments, MHz frequencies), arranged so
    that binary64 computes the intersection length EXACTLY (stop and start within a factor of two: Sterbenz), i.e. any remaining
    error would be the implementation's own (e.g. comparing stop with start + threshold instead)."""
    t = draw(st.one_of(st.floats(2.0, 5e6, allow_nan=False), st.sampled_from([86400.0, 250000.3, 1e5 + 0.1, 4999990.7, 3600.1])))
    thr = draw(st.one_of(st.sampled_from([0.1, 0.3, 1e-3, 0.7, 0.05, 0.0]), st.floats(1e-6, 1.0, allow_nan=False)))
    stop = t + thr
    for _ in range(abs(k := draw(st.integers(-3, 3)))):
        stop = math.nextafter(stop, math.inf if k > 0 else -math.inf)
    a0 = min(t - draw(st.sampled_from([0.0, 0.5, 1.0])), stop)
    d = max(stop + draw(st.sampled_from([0.0, 0.25, 10.0])), t)
    i1, i2 = [a0, stop], [t, d]
    if draw(st.booleans()):
        i1, i2 = i2, i1
    return {"i1": i1, "i2": i2, "mode": "abs" if (thr > 0 or draw(st.booleans())) else "none", "thr": thr, "k": k}


def check_ulp(spec, ctx):
    f = _mod().intervals_overlap
    i1, i2, mode, thr = spec["i1"], spec["i2"], spec["mode"], spec["thr"]
    if mode not in ("abs", "none") or (mode == "none" and thr != 0) or not all(0 <= x <= 1e7 for x in i1 + i2) or i1[0] > i1[1] or i2[0] > i2[1]:
        raise ValueError("malformed spec")
    lo, hi = max(i1[0], i2[0]), min(i1[1], i2[1])
    if not (hi / 2 <= lo <= 2 * hi):
        raise ValueError("malformed spec: the float difference would not be exact")
    exp, margin = exact_overlap(i1, i2, absolute=thr)
    got = _call(f, i1, i2, mode, thr)
    ctx.case(spec, nontrivial=abs(margin) <= 4 * math.ulp(hi), labels=[f"k={spec.get('k')}", f"mode={mode}", f"exp={exp}"], out={"got": bool(got)})
    if bool(got) != exp:
        ctx.fail(f"intervals_overlap{tuple(i1), tuple(i2)} mode={mode} thr={thr}: got {got}, the intersection length {hi!r} - {lo!r} is exact in binary64 and {'>=' if exp else '<'} the threshold (margin {float(margin):.3g})", spec, got, exp, kind="value")
    if bool(_call(f, i2, i1, mode, thr)) != bool(got):
        ctx.fail("intervals_overlap not symmetric", spec, None, None, kind="symmetry")


@st.composite
def open_ended_case(draw):
    """half-open intervals (an event still going on, 'everything before t'): end points at +-infinity, grid values otherwise"""
    a, b = sorted([draw(st.integers(0, 64)) / 8, draw(st.integers(0, 64)) / 8])
    c, d = sorted([draw(st.integers(0, 64)) / 8, draw(st.integers(0, 64)) / 8])
    which = draw(st.sampled_from(["i1_hi", "i1_lo", "both_hi", "i2_lo", "i1_both"]))
    i1, i2 = [a, b], [c, d]
    if which in ("i1_hi", "both_hi", "i1_both"):
        i1[1] = "inf"
    if which in ("i1_lo", "i1_both"):
        i1[0] = "-inf"
    if which == "both_hi":
        i2[1] = "inf"
    if which == "i2_lo":
        i2[0] = "-inf"
    if draw(st.booleans()):
        i1, i2 = i2, i1
    return {"i1": i1, "i2": i2, "thr": draw(st.sampled_from([None, 0.0, 0.5, 3.0])), "which": which}


def check_open_ended(spec, ctx):
    f = _mod().intervals_overlap
    i1, i2 = [float(x) for x in spec["i1"]], [float(x) for x in spec["i2"]]
    thr = spec["thr"]
    ov = min(i1[1], i2[1]) - max(i1[0], i2[0])  # exact: grid values and infinities only
    exp = ov >= (thr or 0.0)
    kw = {} if thr is None else {"min_absolute_overlap": thr}
    got = f(tuple(i1), tuple(i2), **kw)
    ctx.case(spec, nontrivial=True, labels=[spec["which"], f"exp={exp}"], out={"got": bool(got)})
    if bool(got) != exp:
        ctx.fail(f"intervals_overlap({tuple(i1)}, {tuple(i2)}, {kw}) = {got}, the intersection has length {ov}", spec, bool(got), exp, kind="value")
    if bool(f(tuple(i2), tuple(i1), **kw)) != bool(got):
        ctx.fail("intervals_overlap not symmetric (open-ended intervals)", spec, None, None, kind="symmetry")


@st.composite
def error_case(draw):
    a, b = sorted([draw(st.integers(0, 64)), draw(st.integers(0, 64))])
    c, d = sorted([draw(st.integers(0, 64)), draw(st.integers(0, 64))])
    which = draw(st.sampled_from(["both", "rel_low", "rel_high", "rel_edge0", "rel_edge1"]))
    absolute = None
    rel = None
    if which == "both":
        absolute = draw(st.sampled_from([0.0, 0.5, 3.0]))
        rel = draw(st.sampled_from([0.0, 0.5, 1.0]))
    elif which == "rel_low":
        rel = -draw(st.sampled_from([5e-324, 1e-12, 0.5, 3.0, 1e300, 1.7e308, "inf"]).map(float))
    elif which == "rel_high":
        rel = 1 + draw(st.sampled_from([2.0**-52, 1e-9, 0.5, 10.0, 149.0, 1e300, 1.7e308, "inf"]).map(float))
    elif which == "rel_edge0":
        rel = 0.0
    else:
        rel = 1.0
    return {"i1": [a / 8, b / 8], "i2": [c / 8, d / 8], "which": which, "abs": absolute, "rel": rel}


def check_errors(spec, ctx):
    f = _mod().intervals_overlap
    kw = {}
    if spec["abs"] is not None:
        kw["min_absolute_overlap"] = spec["abs"]
    if spec["rel"] is not None:
        kw["min_relative_overlap"] = float(spec["rel"])  # +-inf travel as strings in the JSON spec
    must_raise = spec["which"] in ("both", "rel_low", "rel_high")
    ctx.case(spec, nontrivial=True, labels=[spec["which"]])
    try:
        got = f(tuple(spec["i1"]), tuple(spec["i2"]), **kw)
    except ValueError:
        if not must_raise:
            ctx.fail(f"intervals_overlap rejected an admissible relative threshold {spec['rel']}", spec, "ValueError", "bool", kind="false_reject")
        return
    except Exception as e:  # wrong exception type
        ctx.fail(f"intervals_overlap raised {type(e).__name__} instead of ValueError", spec, repr(e), "ValueError", kind="wrong_exception")
        return
    if must_raise:
        ctx.fail(f"intervals_overlap accepted {kw} (must raise ValueError)", spec, got, "ValueError", kind="false_accept")
    else:
        exp, _ = exact_overlap(spec["i1"], spec["i2"], relative=spec["rel"])
        if bool(got) != exp:
            ctx.fail(f"relative threshold {spec['rel']}: got {got}, exact {exp}", spec, got, exp, kind="value")


# ---- geometry level -----------------------------------------------------------


@st.composite
def geom_pair_case(draw):
    g1 = draw(geometry_spec(free_prob=False, invalid_polygons=True))
    # second geometry on the same scales so that overlaps are common: reuse the meta by drawing until scales agree
    g2 = draw(geometry_spec(free_prob=False, invalid_polygons=True))
    mode = draw(st.sampled_from(["none", "abs", "rel"]))
    thr = None
    if mode == "abs":
        thr = draw(st.sampled_from([0.0, 2.0**-10, 0.125, 1.0, 8.0, 128.0, 8192.0]))
    elif mode == "rel":
        thr = draw(st.integers(0, 8)) / 8
    return {"g1": g1, "g2": g2, "mode": mode, "thr": thr}


def check_geoms(spec, ctx):
    from soundevent import data, geometry

    g1 = data.geometry_validate(geom_dict(spec["g1"]), mode="dict")
    g2 = data.geometry_validate(geom_dict(spec["g2"]), mode="dict")
    b1 = ref_bounds(g1.type, g1.coordinates)
    b2 = ref_bounds(g2.type, g2.coordinates)
    mode, thr = spec["mode"], spec["thr"]
    kw = {"absolute": thr} if mode == "abs" else ({"relative": thr} if mode == "rel" else {})
    kwc = {"min_absolute_overlap": thr} if mode == "abs" else ({"min_relative_overlap": thr} if mode == "rel" else {})
    exp_t, mt = exact_overlap((b1[0], b1[2]), (b2[0], b2[2]), **kw)
    exp_f, mf = exact_overlap((b1[1], b1[3]), (b2[1], b2[3]), **kw)
    got_t = geometry.operations.have_temporal_overlap(g1, g2, **kwc)
    got_f = geometry.have_frequency_overlap(g1, g2, **kwc)
    ctx.case(
        spec,
        nontrivial=(exp_t != exp_f) or mt == 0 or mf == 0,
        labels=[f"t={exp_t}", f"f={exp_f}", f"{g1.type}", f"mode={mode}"],
        out={"t": bool(got_t), "f": bool(got_f)},
    )
    if bool(got_t) != exp_t:
        ctx.fail(f"have_temporal_overlap({g1.type},{g2.type}) = {got_t}, exact predicate on time extents {b1[0], b1[2]} / {b2[0], b2[2]} = {exp_t}", spec, got_t, exp_t, kind="temporal")
    if bool(got_f) != exp_f:
        ctx.fail(f"have_frequency_overlap({g1.type},{g2.type}) = {got_f}, exact predicate on frequency extents {b1[1], b1[3]} / {b2[1], b2[3]} = {exp_f}", spec, got_f, exp_f, kind="frequency")
    if bool(geometry.operations.have_temporal_overlap(g2, g1, **kwc)) != bool(got_t):
        ctx.fail("have_temporal_overlap not symmetric", spec, None, None, kind="symmetry")
    if bool(geometry.have_frequency_overlap(g2, g1, **kwc)) != bool(got_f):
        ctx.fail("have_frequency_overlap not symmetric", spec, None, None, kind="symmetry")
    import pickle

    u1, u2 = pickle.loads(pickle.dumps(g1)), pickle.loads(pickle.dumps(g2))
    if bool(geometry.operations.have_temporal_overlap(u1, u2, **kwc)) != bool(got_t) or bool(geometry.have_frequency_overlap(u1, u2, **kwc)) != bool(got_f):
        ctx.fail("overlap predicates on unpickled geometries differ from the answers for the originals", spec, None, None, kind="pickle")
    # a copy of g1 moved in time (derived from the object that was just measured) is judged by its own coordinates
    from vf.oracles.shp import shift_spec_time

    dt = spec["g2"]["meta"]["ts"] * 4.0
    moved = shift_spec_time(g1.type, g1.coordinates, dt)
    h1 = g1.model_copy(update={"coordinates": moved})
    hb = ref_bounds(g1.type, moved)
    exp_m, _ = exact_overlap((hb[0], hb[2]), (b2[0], b2[2]), **kw)
    got_m = geometry.operations.have_temporal_overlap(h1, g2, **kwc)
    if bool(got_m) != exp_m:
        ctx.fail(f"have_temporal_overlap on a copy of {g1.type} moved by {dt} s = {got_m}, its own time extent {hb[0], hb[2]} vs {b2[0], b2[2]} gives {exp_m}", spec, got_m, exp_m, kind="stale_bounds")


@st.composite
def clip_case(draw):
    g = draw(geometry_spec(free_prob=False, invalid_polygons=True))
    kind, coords = g["type"], g["coordinates"]
    b = ref_bounds(kind, coords)
    step = g["meta"]["ts"] / 64
    placement = draw(st.sampled_from(["around", "touch_start", "touch_end", "inside", "free", "equal", "negative_start", "around_negative"]))
    s, e = b[0], b[2]
    k1 = draw(st.integers(0, 80))
    k2 = draw(st.integers(0, 80))
    if placement == "negative_start":
        # a clip that starts before time 0 (the Clip model allows it: pre-trigger padding) and a minimum overlap that reaches past the
        # end of the geometry when measured from 0 but not when measured from the clip's real start
        m = e + draw(st.integers(0, 3)) * step
        return {"g": g, "clip": [-(m + (k1 + 1) * step), m + s + (k2 + 1) * step], "min": m, "placement": placement, "m_mode": "covers_end"}
    if placement == "around":
        cs, ce = max(0.0, s - k1 * step), e + k2 * step
    elif placement == "touch_start":  # geometry ends exactly at clip start
        cs, ce = e, e + (k2 + 1) * step
    elif placement == "touch_end":  # geometry starts exactly at clip end
        ce = s
        cs = max(0.0, s - (k1 + 1) * step)
    elif placement == "inside":  # clip strictly inside the geometry's extent when possible
        cs, ce = s + min(k1, 4) * step, max(s + min(k1, 4) * step, e - min(k2, 4) * step)
    elif placement == "equal":
        cs, ce = s, e
    elif placement == "around_negative":
        cs, ce = -(k1 + 1) * step, e + k2 * step
    else:
        cs = draw(st.integers(0, 400)) * step
        ce = cs + k2 * step
    m_mode = draw(st.sampled_from(["zero", "grid", "exact_end", "exact_start", "negative"]))
    if m_mode == "zero":
        m = draw(st.sampled_from([0.0, 0.0, -0.0, 0]))
    elif m_mode == "grid":
        m = draw(st.integers(0, 40)) * step
    elif m_mode == "exact_end":
        m = max(0.0, e - cs)
    elif m_mode == "exact_start":
        m = max(0.0, ce - s)
    else:
        m = -draw(st.sampled_from([5e-324, 1e-9, 1.0]))
    return {"g": g, "clip": [cs, ce], "min": m, "placement": placement, "m_mode": m_mode}


def check_clip(spec, ctx):
    from soundevent import data, geometry

    g = data.geometry_validate(geom_dict(spec["g"]), mode="dict")
    cs, ce = spec["clip"]
    # the clip's recording may be time-expanded (bat detectors): clip and geometry times are both in recording time, nothing to adjust
    te = [1.0, 10.0, 0.5, 8.0][int(cs * 64 + len(str(spec["g"]["coordinates"]))) % 4]
    rec = data.Recording(path="a.wav", duration=max(ce, 1.0) + 1, channels=1, samplerate=8000, time_expansion=te)
    clip = data.Clip(recording=rec, start_time=cs, end_time=ce)
    b = ref_bounds(g.type, g.coordinates)
    m = spec["min"]
    if m < 0:
        ctx.case(spec, nontrivial=True, labels=["negative"])
        try:
            got = geometry.is_in_clip(g, clip, minimum_overlap=m)
        except ValueError:
            return
        except Exception as e:
            ctx.fail(f"is_in_clip raised {type(e).__name__} for negative minimum", spec, repr(e), "ValueError", kind="wrong_exception")
            return
        ctx.fail(f"is_in_clip accepted negative minimum_overlap {m}", spec, got, "ValueError", kind="false_accept")
        return
    s, e = Fr(b[0]), Fr(b[2])
    m1 = e - (Fr(cs) + Fr(m))
    m2 = (Fr(ce) - Fr(m)) - s
    exp = (m1 > 0) and (m2 > 0)
    got = geometry.is_in_clip(g, clip, minimum_overlap=m)
    got_default = geometry.is_in_clip(g, clip) if m == 0 else None
    for how, other in (("a positional minimum", geometry.is_in_clip(g, clip, m)), ("a numpy scalar minimum", geometry.is_in_clip(g, clip, minimum_overlap=np.float64(m)))):
        if bool(other) != bool(got):
            ctx.fail(f"is_in_clip with {how} gives {other}, with minimum_overlap={m} as keyword {got}", spec, bool(other), bool(got), kind="call_style")
    ctx.case(
        spec,
        nontrivial=(m1 == 0 or m2 == 0),
        labels=[f"pl={spec['placement']}", f"m={spec['m_mode']}", f"exp={exp}", g.type, "edge" if (m1 == 0 or m2 == 0) else "noedge"],
        out={"got": bool(got)},
    )
    if bool(got) != exp:
        ctx.fail(
            f"is_in_clip({g.type} t=[{b[0]},{b[2]}], clip=[{cs},{ce}], min={m}) = {got}; exact rule (ends > start+min and starts < end-min) = {exp}",
            spec, got, exp, kind="value",
        )
    if got_default is not None and bool(got_default) != exp:
        ctx.fail("is_in_clip default minimum differs from minimum_overlap=0", spec, got_default, exp, kind="default")
    # a clip derived from the one just used (moved far away) no longer contains the geometry
    far = clip.model_copy(update={"start_time": clip.start_time + 1e7, "end_time": clip.end_time + 1e7})
    if bool(geometry.is_in_clip(g, far, minimum_overlap=m)) and b[2] < clip.start_time + 1e7:
        ctx.fail("is_in_clip is True for a clip moved 1e7 s away from the geometry", spec, True, False, kind="stale_clip")


SUBS = [
    Sub("intervals_grid", check_grid, strategy=grid_interval_case, quick=30000, thorough=500000, min_nontrivial=0.2),
    Sub("intervals_free", check_free, strategy=free_interval_case, quick=24000, thorough=300000, min_nontrivial=0.02),
    Sub("intervals_ulp_boundary", check_ulp, strategy=ulp_boundary_case, quick=12000, thorough=150000, min_nontrivial=0.5),
    Sub("open_ended_intervals", check_open_ended, strategy=open_ended_case, quick=2000, thorough=20000),
    Sub("threshold_errors", check_errors, strategy=error_case, quick=4000, thorough=40000),
    Sub("geometry_overlap", check_geoms, strategy=geom_pair_case, quick=12000, thorough=150000, min_nontrivial=0.05),
    Sub("is_in_clip", check_clip, strategy=clip_case, quick=16000, thorough=200000, min_nontrivial=0.1),
]
