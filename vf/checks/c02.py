"""C02 - AOEF documents are self-contained and resolvable in a single pass."""

from __future__ import annotations

import json
import os

from hypothesis import strategies as st

from vf import graphs
from vf.checks.c01 import scratch, spec_classes
from vf.core import Sub

PROP = "C02"
TECHNIQUE = "property-based testing: validity predicate over the JSON text written by save (parsed with json only) against an independent reachability walker over the original object graph"
LEVEL_TEXT = (
    "For each collection type Hypothesis builds object graphs (shared sub-objects, users reachable only as note authors / badge owners / "
    "recording owners, tags only in predictions or project/evaluation tag lists, sequences reachable only as parents, sound events of other "
    "recordings) and the saved JSON is checked: every top-level list has unique ids and defines exactly the objects the walker reaches, every "
    "reference anywhere in the document resolves to exactly one definition, parents precede children. Successive saves in one process expose leaked adapter state. Exploration."
)
LEVEL_NOTE = "the walker traverses pydantic fields generically (no adapter code); the document is read with json.loads only"
RULE = (
    "Same generator as C01 (vf.graphs.collection_spec), one sub-check per collection type. Non-trivial = the document has >= 3 non-empty top-level "
    "lists and some object is referenced from >= 2 places."
)
ASSUMPTIONS = ["objects are identified by uuid (tags by (term label, value)); one uuid <-> one object in the generated graphs", "the top-level recordings list of a recording set / dataset does not contain the same recording twice (tags, owners, sequence members and predicted tags may repeat)"]

LISTS = [
    "users", "tags", "recordings", "clips", "sound_events", "sequences", "sound_event_annotations", "sequence_annotations",
    "clip_annotations", "sound_event_predictions", "sequence_predictions", "clip_predictions", "matches", "clip_evaluations",
]


def make_case(ctype):
    @st.composite
    def case(draw):
        spec = draw(graphs.collection_spec(ctype=ctype))
        spec["audio"] = draw(st.sampled_from(["none", "none", "path"]))
        if "recordings" in spec["top"]:
            # a recording set's top-level `recordings` list is at once the collection's content and the document's definition list:
            # a set listing one recording twice cannot be both faithful (C01) and free of duplicate ids, so it is outside C02's domain
            spec["top"]["recordings"] = list(dict.fromkeys(spec["top"]["recordings"]))
        if len(spec["tags"]) >= 2 and draw(st.integers(0, 2)) == 0:
            # two tags of full vocabulary terms that share the term NAME but not the label (a project's own label for dwc:scientificName
            # next to the standard one), or the label but not the name, with one value: a tag is written as (label, value)
            i, j = draw(st.permutations(list(range(len(spec["tags"])))))[:2]
            v = spec["tags"][i][1]
            if draw(st.booleans()):
                spec["tags"][i], spec["tags"][j] = [["dwc:scientificName", "Scientific Taxon Name"], v], [["dwc:scientificName", "Species"], v]
            else:
                spec["tags"][i], spec["tags"][j] = [["dwc:scientificName", "Taxon"], v], [["proj:taxon", "Taxon"], v]
        if ctype == "annotation_project":
            spec["post_append"] = draw(st.integers(0, 3)) == 0
        if ctype == "evaluation":
            # the evaluation is edited after it was built (models are mutable, validators do not re-run): low-score predictions
            # filtered out of a clip, an annotation withdrawn - the matches still mention them, so they stay reachable
            spec["post_mutation"] = draw(st.sampled_from([None, None, "drop_prediction", "drop_annotation"]))
        return spec

    return case


def check(spec, ctx):
    from pathlib import Path

    from soundevent import io

    d = scratch()
    audio = Path(d) / "audio"
    obj, _ = graphs.build(spec, audio_root=audio if spec["audio"] != "none" else None)
    pm = spec.get("post_mutation")
    if pm and hasattr(obj, "clip_evaluations"):
        for ce in obj.clip_evaluations:
            side = ce.predictions if pm == "drop_prediction" else ce.annotations
            mentioned = {id(m.source if pm == "drop_prediction" else m.target) for m in ce.matches}
            keep = [x for x in side.sound_events if id(x) not in mentioned]
            if len(keep) < len(side.sound_events):
                side.sound_events = keep + [x for x in side.sound_events if id(x) in mentioned][1:]  # the first mentioned one leaves the list
                ctx.label(f"post_mutation={pm}")
    if spec["ctype"] == "annotation_project" and spec.get("post_append") and getattr(obj, "clip_annotations", None):
        # a clip annotation added to the project after it was built (validators do not re-run): its clip has no task, it is still
        # reachable from the project and must be defined
        from soundevent import data as _data

        src_ca = obj.clip_annotations[0]
        import uuid as _uuid

        new_clip = _data.Clip(uuid=_uuid.UUID(int=0xC02C02C02), recording=src_ca.clip.recording, start_time=src_ca.clip.start_time, end_time=src_ca.clip.end_time + 1.0)
        obj.clip_annotations.append(_data.ClipAnnotation(uuid=_uuid.UUID(int=0xC02C02C03), clip=new_clip, created_on=src_ca.created_on))
        ctx.label("post_append")
    path = os.path.join(d, "doc2.json")
    kw = {"audio_dir": audio} if spec["audio"] != "none" else {}
    ctx.call(spec, f"io.save({spec['ctype']})", io.save, obj, path, **kw)
    with open(path) as fh:
        doc = json.load(fh)
    data = doc["data"]
    # the same object saved a second time (same process) must give the same document
    ctx.call(spec, f"second io.save({spec['ctype']})", io.save, obj, path, **kw)
    with open(path) as fh:
        again = json.load(fh)["data"]
    if again != data:
        keys = [k for k in sorted(set(again) | set(data)) if again.get(k) != data.get(k)]
        ctx.fail(f"{spec['ctype']}: saving the same object twice gives different documents (differing sections: {keys})", spec, None, None, kind="second_save_differs")
    # a save that is rejected (an audio directory that does not hold the recordings) leaves nothing behind in the process: the next
    # save of the same object writes the same document
    path_b = os.path.join(d, "doc2-b.json")
    try:
        io.save(obj, path_b, audio_dir=Path(d) / "no such place" / "x")
        ctx.label("save_under_foreign_dir_accepted(no recording)")
    except Exception:  # noqa: BLE001 - rejection is the expected outcome here (C18 decides it)
        ctx.label("rejected_save_then_save")
    recs_ = graphs.walk(obj)["recording_objects"]
    if kw and recs_:
        # ... and so does a save that fails late: ONE recording (a different one from case to case - sometimes one that is only reached
        # through a sequence, a note's author or a match) lies outside the audio directory while the save runs, and is put back afterwards
        import zlib

        victim = recs_[zlib.crc32(json.dumps(spec["top"], sort_keys=True, default=str).encode()) % len(recs_)]
        old_path = victim.path
        victim.path = Path(d) / "elsewhere" / Path(str(old_path)).name
        try:
            io.save(obj, path_b, **kw)
            ctx.label("save_with_one_outside_recording_accepted")
        except Exception:  # noqa: BLE001 - rejection is the expected outcome (C18 decides it)
            ctx.label("late_rejected_save_then_save")
        finally:
            victim.path = old_path
    ctx.call(spec, f"io.save({spec['ctype']}) after a rejected save", io.save, obj, path, **kw)
    with open(path) as fh:
        again = json.load(fh)["data"]
    if again != data:
        keys = [k for k in sorted(set(again) | set(data)) if again.get(k) != data.get(k)]
        ctx.fail(f"{spec['ctype']}: after a save that was rejected, saving the object gives a different document (differing sections: {keys})", spec, None, None, kind="save_after_rejected_save")

    # two threads saving the same collection into two files: this save is suspended at lines inside the library while the other
    # thread saves from start to end; both documents are the document
    def save_read(target):
        io.save(obj, target, **kw)
        with open(target) as fh:
            return json.load(fh)["data"]

    ctx.interleave(spec, f"io.save({spec['ctype']})", lambda: save_read(path), lambda: save_read(path_b), every=3, max_pauses=48)
    reach = graphs.walk(obj)

    refs = {}  # (kind, id) -> number of references

    def ref(kind, ident, where):
        if ident is None:
            return
        refs[(kind, ident)] = refs.get((kind, ident), 0) + 1
        if ident not in defined[kind]:
            ctx.fail(f"{spec['ctype']}: {where} refers to {kind[:-1]} {ident} which the document does not define", spec, ident, sorted(map(str, defined[kind]))[:10], kind="dangling")

    defined = {}
    for name in LISTS:
        items = data.get(name) or []
        key = "id" if name == "tags" else "uuid"
        ids = [it[key] for it in items]
        if len(ids) != len(set(ids)):
            ctx.fail(f"{spec['ctype']}: duplicate identifiers in top-level list '{name}'", spec, ids, None, kind="duplicate_id")
        defined[name] = set(ids)
    nonempty = sum(1 for n in LISTS if data.get(n))

    # exactly the reachable objects are defined
    for name in LISTS:
        if name == "tags":
            got = [(t["key"], t["value"]) for t in data.get("tags") or []]
            if len(got) != len(set(got)):
                ctx.fail(f"{spec['ctype']}: the same tag is defined twice", spec, got, None, kind="duplicate_tag")
            got, want = set(got), reach["tags"]
        else:
            got, want = defined[name], reach[name]
        if got != want:
            missing, extra = sorted(map(str, want - got)), sorted(map(str, got - want))
            ctx.fail(
                f"{spec['ctype']}: top-level list '{name}' != reachable objects: missing {missing[:4]} unreachable-but-written {extra[:4]}",
                spec, sorted(map(str, got)), sorted(map(str, want)), kind="missing" if missing else "unreachable_written",
            )

    def note_refs(notes, where):
        for n in notes or []:
            ref("users", n.get("created_by"), where + ".notes.created_by")

    for r in data.get("recordings") or []:
        for t in r.get("tags") or []:
            ref("tags", t, "recording.tags")
        for o in r.get("owners") or []:
            ref("users", o, "recording.owners")
        note_refs(r.get("notes"), "recording")
    for c in data.get("clips") or []:
        ref("recordings", c["recording"], "clip.recording")
    for s in data.get("sound_events") or []:
        ref("recordings", s["recording"], "sound_event.recording")
    seen_seq = set()
    for q in data.get("sequences") or []:
        for s in q.get("sound_events") or []:
            ref("sound_events", s, "sequence.sound_events")
        if q.get("parent") is not None:
            ref("sequences", q["parent"], "sequence.parent")
            if q["parent"] not in seen_seq:
                ctx.fail(f"{spec['ctype']}: sequence {q['uuid']} is listed before its parent {q['parent']}", spec, None, None, kind="parent_order")
        seen_seq.add(q["uuid"])
    for a in data.get("sound_event_annotations") or []:
        ref("sound_events", a["sound_event"], "sound_event_annotation.sound_event")
        for t in a.get("tags") or []:
            ref("tags", t, "sound_event_annotation.tags")
        ref("users", a.get("created_by"), "sound_event_annotation.created_by")
        note_refs(a.get("notes"), "sound_event_annotation")
    for a in data.get("sequence_annotations") or []:
        ref("sequences", a["sequence"], "sequence_annotation.sequence")
        for t in a.get("tags") or []:
            ref("tags", t, "sequence_annotation.tags")
        ref("users", a.get("created_by"), "sequence_annotation.created_by")
        note_refs(a.get("notes"), "sequence_annotation")
    for c in data.get("clip_annotations") or []:
        ref("clips", c["clip"], "clip_annotation.clip")
        for t in c.get("tags") or []:
            ref("tags", t, "clip_annotation.tags")
        for s in c.get("sound_events") or []:
            ref("sound_event_annotations", s, "clip_annotation.sound_events")
        for s in c.get("sequences") or []:
            ref("sequence_annotations", s, "clip_annotation.sequences")
        note_refs(c.get("notes"), "clip_annotation")
    for p in data.get("sound_event_predictions") or []:
        ref("sound_events", p["sound_event"], "sound_event_prediction.sound_event")
        for t in p.get("tags") or []:
            ref("tags", t[0], "sound_event_prediction.tags")
    for p in data.get("sequence_predictions") or []:
        ref("sequences", p["sequence"], "sequence_prediction.sequence")
        for t in p.get("tags") or []:
            ref("tags", t[0], "sequence_prediction.tags")
    for c in data.get("clip_predictions") or []:
        ref("clips", c["clip"], "clip_prediction.clip")
        for t in c.get("tags") or []:
            ref("tags", t[0], "clip_prediction.tags")
        for s in c.get("sound_events") or []:
            ref("sound_event_predictions", s, "clip_prediction.sound_events")
        for s in c.get("sequences") or []:
            ref("sequence_predictions", s, "clip_prediction.sequences")
    for m in data.get("matches") or []:
        ref("sound_event_predictions", m.get("source"), "match.source")
        ref("sound_event_annotations", m.get("target"), "match.target")
    for e in data.get("clip_evaluations") or []:
        ref("clip_annotations", e["annotations"], "clip_evaluation.annotations")
        ref("clip_predictions", e["predictions"], "clip_evaluation.predictions")
        for m in e.get("matches") or []:
            ref("matches", m, "clip_evaluation.matches")
    for t in data.get("project_tags") or []:
        ref("tags", t, "project_tags")
    for t in data.get("evaluation_tags") or []:
        ref("tags", t, "evaluation_tags")
    task_ids = []
    for t in data.get("tasks") or []:
        task_ids.append(t["uuid"])
        ref("clips", t["clip"], "task.clip")
        for b in t.get("status_badges") or []:
            ref("users", b.get("owner"), "task.status_badges.owner")
    if len(task_ids) != len(set(task_ids)) or set(task_ids) != reach["tasks"]:
        ctx.fail(f"{spec['ctype']}: tasks in the document differ from the project's tasks", spec, task_ids, sorted(reach["tasks"]), kind="tasks")

    shared = any(v >= 2 for v in refs.values())
    ctx.case(spec, nontrivial=nonempty >= 3 and shared, labels=[spec["ctype"], f"lists={nonempty}", "shared" if shared else "noshare"] + spec_classes(spec), out={"lists": nonempty})


SUBS = [
    Sub(f"closed_{ct}", check, strategy=make_case(ct), quick=300, thorough=12000, min_nontrivial=0.0 if ct in ("recording_set", "dataset") else 0.2)
    for ct in graphs.CTYPES
]
