"""Runner: ./vcheck <ID> --tier quick|thorough | --replay <file>

exit 0  property held on everything explored (open known findings printed as KNOWN-FINDING)
exit 1  VIOLATION property=<ID> replay=<path>
exit 2  harness error (never a verdict)
"""

from __future__ import annotations

import argparse
import copy
import importlib
import json
import multiprocessing as mp
import os
import sys
import time
import traceback
import zlib
from collections import Counter

HERE = os.path.dirname(os.path.dirname(os.path.abspath(__file__)))

from vf.core import Ctx, HarnessError, KnownSkip, Sub, Violation, canon, jsonable, spec_hash  # noqa: E402


def load_known(prop):
    path = os.path.join(HERE, "known_findings.json")
    if not os.path.exists(path):
        return []
    with open(path) as fh:
        data = json.load(fh)
    return [e for e in data.get("findings", []) if e.get("property") == prop]


def open_predicates(mod, known):
    preds = {}
    table = getattr(mod, "KNOWN", {})
    for e in known:
        if e.get("status") == "open":
            fid = e["id"]
            if fid not in table:
                raise HarnessError(f"open finding {fid} has no classifier in {mod.__name__}.KNOWN")
            preds[fid] = table[fid]
    return preds


def get_sub(mod, name) -> Sub:
    for s in mod.SUBS:
        if s.name == name:
            return s
    raise HarnessError(f"no sub-check {name} in {mod.__name__}")


def _shard_seed(seed, subname, shard):
    return (seed * 1000003 + zlib.crc32(subname.encode()) % 100000 * 101 + shard) % (2**63)


_WD = {"t": None, "spec": None, "sub": None, "started": False}


def _start_watchdog():
    """A case that runs longer than VERIF_CASE_TIMEOUT seconds (default 150) is a hang: save the spec, dump the
    stack and kill this worker; the parent reports a harness error (never a verdict)."""
    if _WD["started"]:
        return
    _WD["started"] = True
    import faulthandler
    import threading

    limit = float(os.environ.get("VERIF_CASE_TIMEOUT", "150"))

    def watch():
        while True:
            time.sleep(2.0)
            t = _WD["t"]
            if t is not None and time.time() - t > limit:
                try:
                    os.makedirs(os.path.join(HERE, "out"), exist_ok=True)
                    with open(os.path.join(HERE, "out", f"hang-{_WD['sub']}-{os.getpid()}.json"), "w") as fh:
                        fh.write(canon({"sub": _WD["sub"], "spec": _WD["spec"]}))
                    sys.stderr.write(f"WATCHDOG: case of {_WD['sub']} exceeded {limit}s; spec saved under out/hang-*\n")
                    faulthandler.dump_traceback(all_threads=True)
                finally:
                    os._exit(70)

    threading.Thread(target=watch, daemon=True).start()


def _run_case(sub, spec, ctx):
    _WD["t"], _WD["spec"], _WD["sub"] = time.time(), spec, sub.name
    if os.environ.get("VERIF_TRACE_CASES"):
        os.makedirs(os.path.join(HERE, "out"), exist_ok=True)
        with open(os.path.join(HERE, "out", f"current-{os.getpid()}.json"), "w") as fh:
            fh.write(canon({"sub": sub.name, "spec": spec}))
    try:
        sub.check(spec, ctx)
    except KnownSkip:
        pass
    except (Violation, HarnessError, AssertionError, MemoryError):
        raise
    except ValueError as e:
        # ValueError (incl. pydantic's) is what input validation raises: a spec that builds no valid input is the harness's problem -
        # unless the check had handed its (valid) input to a library FUNCTION (io.save, a conversion, an evaluation task ...) outside a
        # `ctx.call`, i.e. the first frame below the check's own frames is library code other than the data models' validators: then
        # the library rejected, half-way through, what the check built as valid.
        import traceback as _tb

        frames = _tb.extract_tb(e.__traceback__)
        norm = [f.filename.replace("\\", "/") for f in frames]
        last_verif = max((i for i, fn in enumerate(norm) if "/verif/" in fn), default=-1)
        below = norm[last_verif + 1 :]
        if not below or "/soundevent/" not in below[0] or "/soundevent/data/" in below[0]:
            raise
        where = frames[last_verif + 1]
        return ctx.fail(
            f"{type(e).__name__}: {str(e)[:200]} raised by {os.path.basename(where.filename)}:{where.lineno} {where.name} on an input the check built as valid",
            spec, repr(e)[:300], "no exception", kind="raised_in_library",
        )
    except Exception as e:
        # A TypeError / KeyError / AttributeError / IndexError / OSError ... raised INSIDE the library, on an input the check built and
        # treats as valid, in a call the check did not expect to fail: the library broke, not the harness.
        import traceback as _tb

        frames = _tb.extract_tb(e.__traceback__)
        lib = [f for f in frames if "/soundevent/" in f.filename.replace("\\", "/") and "/verif/" not in f.filename]
        if not lib:
            raise
        where = lib[-1]
        fail = ctx.fail(
            f"{type(e).__name__}: {str(e)[:200]} raised inside the library ({os.path.basename(where.filename)}:{where.lineno} {where.name}) on an input the check treats as valid",
            spec, repr(e)[:300], "no exception", kind="raised_in_library",
        )
        return fail
    finally:
        _WD["t"] = None


_ENV_DONE = {}


def _process_environment():
    """Process conditions under which the library must behave the same (set once per process, main and workers alike):
    * a small budget of open files (128): a descriptor leaked per call shows up within one shard instead of after a thousand calls;
    * DEBUG logging switched on for the 'soundevent' loggers, records formatted and thrown away: a log statement that cannot be
      formatted, or that computes its arguments wrongly, raises where the caller sees it."""
    if _ENV_DONE:
        return
    _ENV_DONE["x"] = True
    try:
        import resource

        soft, hard = resource.getrlimit(resource.RLIMIT_NOFILE)
        resource.setrlimit(resource.RLIMIT_NOFILE, (min(128, soft if soft > 0 else 128), hard))
    except Exception:
        pass
    import logging

    class _FormatAndDrop(logging.Handler):
        def emit(self, record):
            record.getMessage()  # formatting errors propagate (logging.raiseExceptions is left at its default for other handlers)

    lg = logging.getLogger("soundevent")
    lg.setLevel(logging.DEBUG)
    lg.addHandler(_FormatAndDrop())
    lg.propagate = False


def run_shard(task):
    """Executed in a worker process.  Returns a plain dict."""
    _process_environment()
    modname, subname, shard, nshards, n, seed, tier, preds_ids = task
    t0 = time.time()
    out = {"sub": subname, "shard": shard, "failure": None, "harness_error": None}
    _start_watchdog()
    try:
        mod = importlib.import_module(modname)
        sub = get_sub(mod, subname)
        known = load_known(mod.PROP)
        preds = open_predicates(mod, known)
        ctx = Ctx(mod.PROP, subname, preds)
        if sub.setup is not None:
            sub.setup()
        if sub.enumerate is not None:
            specs = sub.enumerate(tier)
            for i, spec in enumerate(specs):
                if i % nshards != shard:
                    continue
                try:
                    _run_case(sub, spec, ctx)
                except Violation as v:
                    if v.spec is None:
                        v.spec = spec
                    out["failure"] = _viol_dict(v)
                    break
        else:
            import hypothesis
            from hypothesis import HealthCheck, Phase, given, settings

            phases = [Phase.generate]
            if tier == "thorough":
                phases = [Phase.generate, Phase.shrink]

            seen = []

            @hypothesis.seed(_shard_seed(seed, subname, shard))
            @settings(
                max_examples=n,
                database=None,
                deadline=None,
                derandomize=False,
                report_multiple_bugs=False,
                phases=phases,
                suppress_health_check=[HealthCheck.too_slow, HealthCheck.data_too_large],
                print_blob=False,
            )
            @given(sub.strategy())
            def prop_test(spec):
                try:
                    _run_case(sub, spec, ctx)
                except Violation as v:
                    if v.spec is None:
                        v.spec = spec
                    seen.append(v)
                    raise

            try:
                prop_test()
            except Violation as v:
                out["failure"] = _viol_dict(v)
            except BaseException as e:  # noqa: BLE001
                # Hypothesis executes a failing example once more before reporting it; when that second execution in the same process
                # ends differently (the library keeps something from one call to the next) it raises Flaky / an exception group instead
                # of the failure.  The oracle's verdict on the first execution stands: it was reached on real code from a generated case.
                flaky = type(e).__name__ in ("Flaky", "FlakyFailure", "FlakyReplay", "ExceptionGroup", "BaseExceptionGroup") or isinstance(e, hypothesis.errors.HypothesisException)
                if seen and flaky:
                    d = _viol_dict(seen[0])
                    d["message"] += "  [the outcome changed when the same case was executed again in this process: it depends on what ran before]"
                    out["failure"] = d
                else:
                    raise
        out.update(ctx.result())
    except Violation as v:  # raised outside the loop (should not happen)
        out["failure"] = _viol_dict(v)
    except BaseException:
        out["harness_error"] = traceback.format_exc()
    out["wall"] = time.time() - t0
    return out


def _viol_dict(v: Violation):
    return {
        "subcheck": v.subcheck,
        "message": v.message,
        "spec": jsonable(v.spec),
        "observed": jsonable(v.observed),
        "expected": jsonable(v.expected),
        "kind": v.kind,
    }


# ---------------------------------------------------------------------------
# spec-level greedy reducer (quick tier; Hypothesis' own shrinker has a 5 min cap)


def _variants(x):
    """Yield simpler variants of a JSON value (one step)."""
    if isinstance(x, list):
        for i in range(len(x) - 1, -1, -1):
            yield x[:i] + x[i + 1 :]
        for i, e in enumerate(x):
            for v in _variants(e):
                yield x[:i] + [v] + x[i + 1 :]
    elif isinstance(x, dict):
        for k in sorted(x):
            for v in _variants(x[k]):
                y = dict(x)
                y[k] = v
                yield y
    elif isinstance(x, bool):
        if x:
            yield False
    elif isinstance(x, int):
        if x not in (0, 1):
            yield 0
            yield 1
            if abs(x) > 3:
                yield x // 2
    elif isinstance(x, float):
        if x not in (0.0, 1.0):
            yield 0.0
            yield 1.0
            r = float(round(x))
            if r != x:
                yield r
            r = float(round(x, 3))
            if r != x:
                yield r
    elif isinstance(x, str):
        if len(x) > 1:
            yield x[:1]
        if x not in ("", "a") and len(x) <= 1:
            yield "a"


def minimise(sub: Sub, preds, prop, failure, budget):
    t0 = time.time()
    best = failure["spec"]
    kind = failure["kind"]
    best_fail = failure
    improved = True
    tries = 0
    while improved and time.time() - t0 < budget:
        improved = False
        for cand in _variants(best):
            if time.time() - t0 > budget:
                break
            tries += 1
            ctx = Ctx(prop, sub.name, preds)
            try:
                sub.check(copy.deepcopy(cand), ctx)
            except KnownSkip:
                continue
            except Violation as v:
                if v.kind == kind:
                    best = cand
                    v.spec = cand
                    best_fail = _viol_dict(v)
                    improved = True
                    break
            except BaseException:
                continue
    best_fail["minimiser_tries"] = tries
    return best_fail


# ---------------------------------------------------------------------------


def _reexec_with_replay_hashseed(path):
    """A replay file records the PYTHONHASHSEED of the run that produced it; replaying happens under the same string hashing."""
    try:
        rec = json.load(open(path))
    except Exception:
        return
    hs, opt = rec.get("hashseed"), int(rec.get("optimize") or 0)
    need_hs = hs is not None and os.environ.get("PYTHONHASHSEED") != str(hs)
    need_opt = bool(opt) and not sys.flags.optimize
    if (need_hs or need_opt) and not os.environ.get("VERIF_NO_REEXEC"):
        if hs is not None:
            os.environ["PYTHONHASHSEED"] = str(hs)
        os.environ["VERIF_NO_REEXEC"] = "1"
        os.execv(sys.executable, [sys.executable] + (["-O"] if opt else []) + ["-W", "ignore", "-m", "vf.runner"] + sys.argv[1:])


def write_replay(prop, failure, outdir):
    failure.setdefault("hashseed", os.environ.get("PYTHONHASHSEED"))
    failure.setdefault("optimize", int(sys.flags.optimize))
    os.makedirs(outdir, exist_ok=True)
    h = spec_hash(failure["spec"])
    path = os.path.join(outdir, f"{failure['subcheck']}-{h:016x}.json")
    with open(path, "w") as fh:
        json.dump({"property": prop, **failure}, fh, indent=1, sort_keys=True)
    return path


def run_replay_file(mod, path, preds):
    with open(path) as fh:
        rep = json.load(fh)
    sub = get_sub(mod, rep["subcheck"])
    if sub.setup is not None:
        sub.setup()
    ctx = Ctx(mod.PROP, sub.name, preds)
    try:
        sub.check(rep["spec"], ctx)
    except KnownSkip:
        return None, ctx
    except Violation as v:
        if v.spec is None:
            v.spec = rep["spec"]
        return _viol_dict(v), ctx
    return None, ctx


def main(argv=None):
    ap = argparse.ArgumentParser()
    ap.add_argument("prop")
    ap.add_argument("--tier", default=os.environ.get("VERIF_TIER", "quick"), choices=["quick", "thorough"])
    ap.add_argument("--replay", default=None)
    ap.add_argument("--only", default=None, help="comma separated sub-check names")
    ap.add_argument("--scale", type=float, default=float(os.environ.get("VERIF_SCALE", "1")))
    ap.add_argument("--procs", type=int, default=int(os.environ.get("VERIF_PROCS", "16")))
    ap.add_argument("--no-evidence", action="store_true")
    args = ap.parse_args(argv)

    prop = args.prop.upper()
    seed = int(os.environ.get("VERIF_SEED", "1") or "1")
    t0 = time.time()
    try:
        mod = importlib.import_module(f"vf.checks.{prop.lower()}")
        known = load_known(prop)
        preds = open_predicates(mod, known)
    except BaseException:
        traceback.print_exc()
        print(f"HARNESS-ERROR property={prop} (import)")
        return 2

    # ---- replay of one file ------------------------------------------------
    _process_environment()
    if args.replay:
        _reexec_with_replay_hashseed(args.replay)
        try:
            fail, _ = run_replay_file(mod, args.replay, preds)
        except BaseException:
            traceback.print_exc()
            print(f"HARNESS-ERROR property={prop} (replay)")
            return 2
        if fail:
            print(f"replay fails: [{fail['subcheck']}] {fail['message']}")
            print(f"VIOLATION property={prop} replay={args.replay}")
            return 1
        print(f"replay passes: {args.replay}")
        return 0

    subs = list(mod.SUBS)
    if args.only:
        names = set(args.only.split(","))
        subs = [s for s in subs if s.name in names]

    failures = []
    harness_errors = []
    known_hits = Counter()

    # ---- regression replays (committed) -------------------------------------
    replay_dir = os.path.join(HERE, "replays", prop)
    n_replays = 0
    if os.path.isdir(replay_dir):
        for fn in sorted(os.listdir(replay_dir)):
            if not fn.endswith(".json"):
                continue
            path = os.path.join(replay_dir, fn)
            try:
                fail, rctx = run_replay_file(mod, path, preds)
                known_hits.update(rctx.known_hits)
            except BaseException:
                harness_errors.append(f"replay {fn}:\n" + traceback.format_exc())
                continue
            n_replays += 1
            if fail:
                fail["replay_path"] = os.path.relpath(path, HERE)
                failures.append(fail)

    # ---- generated cases -----------------------------------------------------
    tasks = []
    for s in subs:
        if s.enumerate is not None:
            nsh = s.shards or args.procs
            for sh in range(nsh):
                tasks.append((mod.__name__, s.name, sh, nsh, 0, seed, args.tier, None))
        else:
            total = s.quick if args.tier == "quick" else s.thorough
            total = max(1, int(total * args.scale))
            nsh = s.shards or min(args.procs, max(1, total // 20))
            per = -(-total // nsh)
            for sh in range(nsh):
                tasks.append((mod.__name__, s.name, sh, nsh, per, seed, args.tier, None))
    # interleave so long sub-checks do not pile up at the end
    tasks.sort(key=lambda t: (t[2], t[1]))

    results = []
    if tasks:
        if args.procs <= 1:
            results = [run_shard(t) for t in tasks]
        else:
            from concurrent.futures import ProcessPoolExecutor, as_completed
            from concurrent.futures.process import BrokenProcessPool

            ctxm = mp.get_context("fork")
            ex = ProcessPoolExecutor(max_workers=args.procs, mp_context=ctxm)
            futs = {ex.submit(run_shard, t): t for t in tasks}
            try:
                for fut in as_completed(futs):
                    try:
                        results.append(fut.result())
                    except BrokenProcessPool:
                        t = futs[fut]
                        harness_errors.append(f"worker died while running {t[1]} shard {t[2]} (hang watchdog or crash; see out/hang-*.json)")
            finally:
                ex.shutdown(wait=not any('worker died' in h for h in harness_errors), cancel_futures=True)
    results.sort(key=lambda r: (r["sub"], r["shard"]))

    per_sub = {}
    all_hashes = set()
    labels = Counter()
    samples = []
    evaluations = 0
    for r in results:
        if r.get("harness_error"):
            harness_errors.append(f"[{r['sub']} shard {r['shard']}]\n{r['harness_error']}")
        ps = per_sub.setdefault(r["sub"], {"evaluations": 0, "nontrivial_evals": 0, "hashes": set(), "wall_cpu_s": 0.0})
        ps["evaluations"] += r.get("evaluations", 0)
        ps["nontrivial_evals"] += r.get("n_nontrivial", 0)
        ps["hashes"].update(r.get("hashes", []))
        ps["wall_cpu_s"] += r.get("wall", 0.0)
        evaluations += r.get("evaluations", 0)
        for k, v in r.get("labels", {}).items():
            labels[f"{r['sub']}:{k}"] += v
        known_hits.update(r.get("known_hits", {}))
        if r["shard"] == 0:
            samples.extend(r.get("samples", [])[:3])
        if r.get("failure"):
            failures.append(r["failure"])

    sub_summary = {}
    vacuous = []
    for s in subs:
        ps = per_sub.get(s.name)
        if not ps:
            continue
        # distinct hashes are merged per sub-check (specs of different sub-checks differ in meaning)
        all_hashes.update((s.name, h) for h in ps["hashes"])
        frac = ps["nontrivial_evals"] / ps["evaluations"] if ps["evaluations"] else 0.0
        sub_summary[s.name] = {
            "evaluations": ps["evaluations"],
            "distinct_nontrivial": len(ps["hashes"]),
            "nontrivial_fraction": round(frac, 4),
            "mode": "exhaustive" if s.enumerate is not None else "hypothesis",
            "cpu_s": round(ps["wall_cpu_s"], 2),
        }
        if s.exhaustive_note:
            sub_summary[s.name]["exhaustive_space"] = s.exhaustive_note
        has_fail = any(f["subcheck"] == s.name for f in failures)
        if not has_fail and ps["evaluations"] > 0 and frac < s.min_nontrivial:
            vacuous.append(f"{s.name}: non-trivial fraction {frac:.4f} < floor {s.min_nontrivial}")

    extra = {}
    if hasattr(mod, "post") and not args.only:
        try:
            import inspect

            if len(inspect.signature(mod.post).parameters) >= 4:
                extra = mod.post(args.tier, seed, failures, dict(labels)) or {}
            else:
                extra = mod.post(args.tier, seed, failures) or {}
        except BaseException:
            harness_errors.append("post():\n" + traceback.format_exc())

    # ---- verdict -------------------------------------------------------------
    violation_path = None
    first = None
    if failures:
        first = failures[0]
        if "replay_path" in first:
            violation_path = first["replay_path"]
        else:
            try:
                sub = get_sub(mod, first["subcheck"])
                if sub.setup is not None:
                    sub.setup()
                original = copy.deepcopy(first)
                if not os.environ.get("VERIF_NO_MINIMISE"):
                    first = minimise(sub, preds, prop, first, sub.max_shrink_s)
                # the verdict rests on the generated case; the minimised one is a convenience and may take another route to the
                # same kind of failure, so the generated spec travels with the replay
                first["original_spec"] = original.get("spec")
                first["original_message"] = original.get("message")
            except BaseException:
                traceback.print_exc()
            outdir = os.path.join(HERE, "out", "replays", prop)
            # the minimiser re-runs the failing case in THIS process: a library that leaks descriptors (or whatever the violation is about)
            # has by now used up this process's budget too - the verdict must still be written
            try:
                import gc
                import resource

                gc.collect()
                _soft, _hard = resource.getrlimit(resource.RLIMIT_NOFILE)
                resource.setrlimit(resource.RLIMIT_NOFILE, (_hard if _hard > 0 else 4096, _hard))
            except Exception:  # noqa: BLE001
                pass
            violation_path = os.path.relpath(write_replay(prop, first, outdir), HERE)

    wall = time.time() - t0
    open_known = [e for e in known if e.get("status") == "open"]
    if not args.no_evidence and not args.only:
        ev = {
            "property_id": prop,
            "tier": args.tier,
            "seed": seed,
            "level": "exploration",
            "coverage": {
                "evaluations": int(evaluations + n_replays),
                "distinct_nontrivial": len(all_hashes),
                "rule": getattr(mod, "RULE", ""),
                "samples": samples[:12] or [{"note": "no sample recorded"}],
                "exhaustive": bool(getattr(mod, "EXHAUSTIVE", False)),
                "subchecks": sub_summary,
                "class_counters": dict(sorted(labels.items())),
                "regression_replays_run": n_replays,
                "known_findings_open": [e["id"] for e in open_known],
                "excluded_by_known_finding": dict(known_hits),
                "engines": getattr(mod, "ENGINES", ["hypothesis"]),
                **extra,
            },
            "assumptions": getattr(mod, "ASSUMPTIONS", []),
            "wall_s": round(wall, 2),
            "violations": len(failures),
        }
        if first:
            ev["coverage"]["first_violation"] = {k: first.get(k) for k in ("subcheck", "message", "kind")}
        os.makedirs(os.path.join(HERE, "evidence"), exist_ok=True)
        with open(os.path.join(HERE, "evidence", f"{prop}.json"), "w") as fh:
            json.dump(jsonable(ev), fh, indent=1, sort_keys=True)

    for name, s in sub_summary.items():
        print(f"  {prop}/{name}: {s['evaluations']} cases, {s['distinct_nontrivial']} distinct non-trivial ({s['mode']}, cpu {s['cpu_s']}s)")
    for e in open_known:
        print(f"KNOWN-FINDING: property={prop} {e['id']}: {e['what']} (cases excluded this run: {known_hits.get(e['id'], 0)})")

    if harness_errors:
        for h in harness_errors[:2]:
            print(h[:300] + "\n  ...\n" + h[-1800:] if len(h) > 2200 else h, file=sys.stderr)
        print(f"HARNESS-ERROR property={prop} ({len(harness_errors)} error(s))")
        if not failures:
            return 2
    if failures:
        print(f"  first failure [{first['subcheck']}] {first['message']}")
        print(f"VIOLATION property={prop} replay={violation_path}")
        return 1
    if vacuous and not os.environ.get("VERIF_OPT_CHILD"):
        for v in vacuous:
            print("VACUOUS " + v, file=sys.stderr)
        print(f"HARNESS-ERROR property={prop} (vacuity guard)")
        return 2
    # ---- the same check, a slice of it, in an interpreter started with -O (assert statements stripped): validators written as
    # asserts vanish there.  The child is this runner; its verdict is the parent's.
    if not os.environ.get("VERIF_OPT_CHILD") and not args.only and not os.environ.get("VERIF_NO_OPT_PASS"):
        import subprocess

        env = dict(os.environ, VERIF_OPT_CHILD="1", PYTHONOPTIMIZE="1")
        cmd = [sys.executable, "-O", "-W", "ignore", "-m", "vf.runner", prop, "--tier", args.tier, "--scale", str(args.scale * (0.12 if args.tier == "quick" else 0.04)), "--no-evidence", "--procs", str(args.procs)]
        r = subprocess.run(cmd, env=env, capture_output=True, text=True)
        lines = r.stdout.splitlines()
        if r.returncode == 1:
            for l in lines:
                if l.startswith(("  first failure", "VIOLATION")):
                    print(l.replace("  first failure", "  first failure (interpreter started with -O)"))
            return 1
        okl = [l for l in lines if l.startswith("OK property=")]
        print(f"  {prop}: pass under python -O: " + (okl[0].split("evaluations=")[1].split()[0] + " evaluations, no violation" if okl else f"inconclusive (exit {r.returncode})"))
    print(f"OK property={prop} tier={args.tier} seed={seed} evaluations={evaluations + n_replays} wall={time.time() - t0:.1f}s")
    return 0


if __name__ == "__main__":
    sys.exit(main())
