"""Generators and builders for evaluation inputs (C08, C09): clip annotations / clip predictions over a vocabulary."""

from __future__ import annotations

import uuid as uuidlib

from hypothesis import strategies as st

TAG_POOL = [["species", "a"], ["species", "b"], ["species", "c"], ["call", "a"], ["call", "x"], ["k", ""], ["species", "Pin\u0303on jay"], ["species", "Pi\u00f1on jay"], ["species", "A"], ["Species", "a"],
            # two authorities' code lists: different terms (name, definition) that carry the same label, and the same code in both
            ["authx|code", "RO"], ["authy|code", "RO"]]
OOV = [["species", "zz"], ["other", "a"]]


@st.composite
def scores_for(draw, nvocab, sum_le_one=True, prefer=()):
    """scores on the k/64 grid for each vocabulary index (possibly absent), summing to <= 1 when requested"""
    budget = 64
    out = []
    idx = draw(st.lists(st.one_of(st.integers(0, nvocab - 1), st.integers(max(0, nvocab - 60), nvocab - 1)), min_size=0, max_size=min(nvocab, 8), unique=True)) if nvocab else []
    prefer = [i for i in prefer if 0 <= i < nvocab]
    if prefer and draw(st.integers(0, 2)) > 0:
        # informative predictions: the true class of an annotation of the same clip usually gets a score
        p = prefer[draw(st.integers(0, len(prefer) - 1))]
        idx = [p] + [i for i in idx if i != p]
    for i in idx:
        if sum_le_one:
            k = draw(st.integers(0, budget))
            budget -= k
        else:
            k = draw(st.integers(0, 64))
        out.append([i, k / 64])
    return out


@st.composite
def geometry(draw, allow_none=True, kinds=("TimeInterval", "BoundingBox")):
    if allow_none and draw(st.integers(0, 5)) == 0:
        return None
    cluster = draw(st.sampled_from([0, 0, 0, 8, 20]))
    a = cluster + draw(st.integers(0, 16)) / 8
    d = draw(st.integers(1, 16)) / 8
    kind = draw(st.sampled_from(kinds))
    if kind == "TimeInterval":
        return {"type": "TimeInterval", "coordinates": [a, a + d]}
    lo = draw(st.integers(0, 8)) * 500.0
    hi = lo + draw(st.integers(1, 8)) * 500.0
    return {"type": "BoundingBox", "coordinates": [a, lo, a + d, hi]}


@st.composite
def detection_inputs(draw, min_vocab=2, max_vocab=5, sum_le_one=True, same_events=False, allow_geometryless=True, clip_tags=False, multilabel=False, max_clips=4, big_vocab=False):
    if big_vocab:
        # a vocabulary of several hundred tags (class indices beyond 255 / 65535 are legitimate)
        nv = draw(st.sampled_from([257, 300, 513]))
        vocab = [["species", f"sp{i:04d}"] for i in range(nv)]
    else:
        nv = draw(st.integers(min_vocab, max_vocab))
        vocab = draw(st.permutations(TAG_POOL))[:nv]
    nclips = draw(st.integers(1, max_clips))
    side = [draw(st.sampled_from(["both", "both", "both", "both", "both", "ann", "pred"])) for _ in range(nclips)]
    if "both" not in side:
        side[0] = "both"
    clips = []
    for s in side:
        def true_tags():
            n = draw(st.sampled_from([0, 1, 1, 1, 2]))
            return [draw(st.one_of(st.integers(0, nv - 1), st.integers(max(0, nv - 60), nv - 1), st.sampled_from([-1, -2, -3, -4, -5]))) for _ in range(n)]  # negative = out of vocabulary

        def pred_tags(prefer=()):
            sc = draw(scores_for(nv, sum_le_one=sum_le_one, prefer=prefer))
            if draw(st.integers(0, 3)) == 0:
                sc.append([draw(st.sampled_from([-1, -3, -4, -5])), draw(st.integers(0, 64)) / 64])  # out-of-vocabulary predicted tag, arbitrary score
            if sc and draw(st.integers(0, 5)) == 0:
                # the same predicted tag (same score) listed twice, e.g. two merged outputs: it still gives that one probability
                sc.insert(draw(st.integers(0, len(sc))), list(sc[draw(st.integers(0, len(sc) - 1))]))
            return sc

        anns, preds = [], []
        if same_events:
            n = draw(st.integers(0, 4))
            for _ in range(n):
                g = draw(geometry(allow_none=allow_geometryless))
                anns.append({"geometry": g, "tags": true_tags()})
                preds.append({"geometry": g, "tags": pred_tags(anns[-1]["tags"]), "same_as": len(anns) - 1, "conf": draw(st.integers(0, 20)) / 20})
        else:
            for _ in range(draw(st.integers(0, 4))):
                anns.append({"geometry": draw(geometry(allow_none=allow_geometryless)), "tags": true_tags()})
            for _ in range(draw(st.integers(0, 4))):
                preds.append({"geometry": draw(geometry(allow_none=allow_geometryless)), "tags": pred_tags([t for a in anns for t in a["tags"]]), "conf": draw(st.integers(0, 20)) / 20})
        if not same_events and anns and len(preds) < 5 and draw(st.integers(0, 3)) == 0:
            # a prediction that starts exactly where an annotation ends (consecutive windows of a detector), at times that are not binary
            # fractions (tenths of a second): the two share an instant, not a duration - they do not overlap
            i = draw(st.integers(0, len(anns) - 1))
            a_, b_, c_ = sorted(draw(st.lists(st.integers(0, 40), min_size=3, max_size=3, unique=True)))
            box = draw(st.booleans())
            anns[i]["geometry"] = {"type": "BoundingBox", "coordinates": [a_ / 10, 500.0, b_ / 10, 2500.0]} if box else {"type": "TimeInterval", "coordinates": [a_ / 10, b_ / 10]}
            anns[i].pop("se_from", None)
            touching = {"type": "BoundingBox", "coordinates": [b_ / 10, 500.0, c_ / 10, 2500.0]} if (box and draw(st.booleans())) else {"type": "TimeInterval", "coordinates": [b_ / 10, c_ / 10]}
            preds.append({"geometry": touching, "tags": pred_tags(anns[i]["tags"]), "conf": draw(st.integers(0, 20)) / 20})
        # two hypotheses about ONE sound event (predictions wrapping the same SoundEvent object), two annotators of one event
        if not same_events:
            for lst, key in ((preds, "se_of_pred"), (anns, "se_of_ann")):
                if len(lst) >= 2 and draw(st.integers(0, 5)) == 0:
                    j = draw(st.integers(1, len(lst) - 1))
                    i = draw(st.integers(0, j - 1))
                    if key not in lst[i]:
                        lst[j][key] = i
                        lst[j]["geometry"] = lst[i]["geometry"]
        # a prediction that carries the uuid of "its" annotation (uuid reused to track the correspondence)
        for pi, p_ in enumerate(preds):
            k = p_.get("same_as", pi)
            if k < len(anns) and draw(st.integers(0, 7)) == 0:
                p_["uuid_like_ann"] = k
        c = {"side": s, "anns": anns, "preds": preds, "separate_clip": draw(st.sampled_from([None, None, "equal_copy", "other_content"]))}
        if same_events and clips and anns and draw(st.integers(0, 3)) == 0:
            # overlapping clips: an event of an earlier clip is annotated (and predicted) again in this one, by other objects
            cj = draw(st.integers(0, len(clips) - 1))
            if clips[cj]["anns"]:
                aj = draw(st.integers(0, len(clips[cj]["anns"]) - 1))
                ai = draw(st.integers(0, len(anns) - 1))
                root = clips[cj]["anns"][aj].get("se_from", [cj, aj])
                taken = {tuple(a_.get("se_from", ())) for a_ in anns}
                if tuple(root) not in taken:
                    anns[ai]["se_from"] = list(root)
                    anns[ai]["geometry"] = preds[ai]["geometry"] = clips[root[0]]["anns"][root[1]]["geometry"]
        if not clip_tags and draw(st.integers(0, 2)) == 0:
            # clip-level tags on inputs of the sound-event tasks: they are no part of those tasks and must not matter
            c["noise_true_tags"] = true_tags()
            c["noise_pred_tags"] = pred_tags()
        if clip_tags:
            if multilabel:
                c["true_tags"] = draw(st.lists(st.one_of(st.integers(0, nv - 1), st.sampled_from([-1])), min_size=0, max_size=nv, unique=True))
            else:
                c["true_tags"] = true_tags()
            c["pred_tags"] = pred_tags(c["true_tags"])
        clips.append(c)
    return {"vocab": [list(v) for v in vocab], "clips": clips, "order": draw(st.permutations(list(range(nclips))))}


def _uid(n):
    return str(uuidlib.UUID(int=n))


def ref_affinity(g1, g2):
    """Closed-form affinity for the two geometry kinds generated here (TimeInterval, BoundingBox): area IoU of two boxes,
    1-D IoU of the time extents when either is a TimeInterval (neither kind is buffered by compute_affinity)."""
    def ext(g):
        c = g["coordinates"]
        return (c[0], c[1], None, None) if g["type"] == "TimeInterval" else (c[0], c[2], c[1], c[3])

    s1, e1, l1, h1 = ext(g1)
    s2, e2, l2, h2 = ext(g2)
    it = max(0.0, min(e1, e2) - max(s1, s2))
    if l1 is None or l2 is None:
        union = (e1 - s1) + (e2 - s2) - it
        return 0.0 if union == 0 else min(1.0, it / union)
    jf = max(0.0, min(h1, h2) - max(l1, l2))
    inter = it * jf
    union = (e1 - s1) * (h1 - l1) + (e2 - s2) * (h2 - l2) - inter
    return 0.0 if union == 0 else min(1.0, inter / union)


def build(spec, order=None):
    """-> (clip_predictions, clip_annotations, vocabulary tags, index) ; index maps uuids to spec positions."""
    from soundevent import data

    def tag(pair):
        if "|" in pair[0]:
            ns, label = pair[0].split("|", 1)
            return data.Tag(term=data.Term(name=f"{ns}:{label}", label=label, definition=f"{label} as defined by {ns}"), value=pair[1])
        return data.Tag(term=data.term_from_key(pair[0]), value=pair[1])

    vocab = [tag(v) for v in spec["vocab"]]

    rest = [t for t in TAG_POOL if list(t) not in [list(v) for v in spec["vocab"]]]
    outside = [tag(t) for t in OOV + rest]

    def tag_of(i):
        # negative = out of vocabulary: either never in any vocabulary (OOV) or a pool tag absent from THIS vocabulary
        return vocab[i] if i >= 0 else outside[(-i - 1) % len(outside)]

    rec = data.Recording(uuid=_uid(1), path="r.wav", duration=100.0, channels=1, samplerate=44100)
    cps, cas = [], []
    index = {"clips": {}, "ann": {}, "pred": {}}
    order = list(order) if order is not None else list(range(len(spec["clips"])))
    shared_ses = {}
    for ci in order:
        c = spec["clips"][ci]
        clip = data.Clip(uuid=_uid(1000 + ci), recording=rec, start_time=0.0, end_time=30.0)
        index["clips"][str(clip.uuid)] = ci
        ses = {}
        anns = []
        for ai, a in enumerate(c["anns"]):
            if "se_of_ann" in a:
                se = ses[a["se_of_ann"]]
            else:
                rc, ra = a.get("se_from", [ci, ai])
                if (rc, ra) not in shared_ses:
                    shared_ses[(rc, ra)] = data.SoundEvent(uuid=_uid(100000 + rc * 1000 + ra), recording=rec, geometry=data.geometry_validate(a["geometry"], mode="dict") if a["geometry"] else None)
                se = shared_ses[(rc, ra)]
            ses[ai] = se
            ann = data.SoundEventAnnotation(uuid=_uid(200000 + ci * 1000 + ai), sound_event=se, tags=[tag_of(i) for i in a["tags"]], created_on="2020-01-01T00:00:00")
            index["ann"][str(ann.uuid)] = (ci, ai)
            anns.append(ann)
        preds = []
        pses = {}
        for pi, p in enumerate(c["preds"]):
            if "same_as" in p:
                se = ses[p["same_as"]]
            elif "se_of_pred" in p:
                se = pses[p["se_of_pred"]]
            else:
                se = data.SoundEvent(uuid=_uid(300000 + ci * 1000 + pi), recording=rec, geometry=data.geometry_validate(p["geometry"], mode="dict") if p["geometry"] else None)
            pses[pi] = se
            puid = _uid(200000 + ci * 1000 + p["uuid_like_ann"]) if "uuid_like_ann" in p else _uid(400000 + ci * 1000 + pi)
            pred = data.SoundEventPrediction(uuid=puid, sound_event=se, score=p.get("conf", 0.5), tags=[data.PredictedTag(tag=tag_of(i), score=s) for i, s in p["tags"]])
            index["pred"][str(pred.uuid)] = (ci, pi)
            preds.append(pred)
        if c["side"] in ("both", "ann"):
            cas.append(data.ClipAnnotation(uuid=_uid(500000 + ci), clip=clip, sound_events=anns, tags=[tag_of(i) for i in c.get("true_tags", c.get("noise_true_tags", []))], created_on="2020-01-01T00:00:00"))
        pclip = clip
        if c.get("separate_clip") == "equal_copy":
            pclip = data.Clip(uuid=clip.uuid, recording=rec, start_time=0.0, end_time=30.0)
        elif c.get("separate_clip") == "other_content":
            # same clip (same uuid) as seen by another tool: the recording carries an extra tag, the clip a feature
            rec2 = rec.model_copy(update={"tags": [tag(["site", "x"])], "path": "other/dir/r.wav"})
            pclip = data.Clip(uuid=clip.uuid, recording=rec2, start_time=0.0, end_time=30.0, features=[data.Feature(term=data.term_from_key("snr"), value=3.0)])
        if c["side"] in ("both", "pred"):
            cps.append(data.ClipPrediction(uuid=_uid(600000 + ci), clip=pclip, sound_events=preds, tags=[data.PredictedTag(tag=tag_of(i), score=s) for i, s in c.get("pred_tags", c.get("noise_pred_tags", []))]))
    return cps, cas, vocab, index


def first_in_vocab(tags):
    return next((i for i in tags if i >= 0), None)


def score_vector(ptags, nv):
    import numpy as np

    v = np.zeros(nv, dtype=np.float64)
    for i, s in ptags:
        if i >= 0:
            v[i] = s
    return v
