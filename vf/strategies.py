"""Shared Hypothesis strategies.  Every strategy yields plain JSON-able specs.

Numbers: a dyadic grid (k/64 scaled by powers of two, so that sums, differences, halving and
small integer multiples are exact in binary64), a boundary palette, and free floats.
"""

from __future__ import annotations

import math

from hypothesis import strategies as st

MAXF = 5_000_000

ALL_KINDS = [
    "TimeStamp",
    "TimeInterval",
    "Point",
    "LineString",
    "Polygon",
    "BoundingBox",
    "MultiPoint",
    "MultiLineString",
    "MultiPolygon",
]
TIME_KINDS = ["TimeStamp", "TimeInterval"]
AREA_KINDS = ["TimeInterval", "Polygon", "BoundingBox", "MultiPolygon"]

T_SCALES = [2.0**-10, 2.0**-3, 1.0, 8.0, 1024.0]
F_SCALES = [1.0, 128.0, 8192.0, 2.0**20]


def unit_grid(lo=0, hi=256):
    """k/64 for k in [lo, hi] - dyadic numbers in [0, 4]."""
    return st.integers(lo, hi).map(lambda k: k / 64)


def unit_free():
    return st.floats(0.0, 4.0, allow_nan=False, allow_infinity=False, allow_subnormal=False)


def _sorted_distinct(draw, n, elem):
    vals = draw(st.lists(elem, min_size=n, max_size=n, unique=True))
    return sorted(vals)


@st.composite
def geometry_spec(draw, kinds=None, simple_lines=False, allow_degenerate=True, free_prob=True, edges=True, small=False, frame=None, invalid_polygons=False):
    """A *valid* geometry as {"type":…, "coordinates":…} plus a "meta" dict (scale, flags).

    Coordinates are built in unit space [0,4]x[0,4] (dyadic grid or free floats) and mapped
    affinely to (time, frequency); the map uses power-of-two scales so that grid cases stay
    exactly representable.
    """
    kinds = kinds or ALL_KINDS
    kind = draw(st.sampled_from(kinds))
    free = draw(st.integers(0, 3)) == 0 if free_prob else False
    u_el = unit_free() if free else unit_grid()
    if frame is not None:
        st_, sf, t_off, f_off, flip = frame["ts"], frame["fs"], frame["t_off"], frame["f_off"], frame["flip"]
    else:
        st_ = draw(st.sampled_from(T_SCALES))
        sf = draw(st.sampled_from(F_SCALES))
        t_off = draw(st.sampled_from([0.0, 0.0, st_ * 0.5, st_ * 3.0, 100.0, 100.0, 4999990.0, 16777216.0])) if edges else st_ * 3.0
        flip = draw(st.integers(0, 3)) == 0 if edges else False  # frequencies measured down from MAX
        f_off = draw(st.sampled_from([0.0, 0.0, sf * 0.5, 1000.0])) if edges else sf * 0.5
        if f_off + 4 * sf > MAXF:
            f_off = 0.0

    def T(u):
        return t_off + st_ * u

    def F(v):
        return (MAXF - sf * v) if flip else (f_off + sf * v)

    degenerate = None
    if allow_degenerate and kind not in ("Polygon", "MultiPolygon", "TimeStamp", "Point") and draw(st.integers(0, 9)) == 0:
        degenerate = draw(st.sampled_from(["time", "freq"]))

    def pts(n, mono=False):
        us = draw(st.lists(u_el, min_size=n, max_size=n, unique=mono))
        vs = draw(st.lists(u_el, min_size=n, max_size=n))
        if mono:
            us = sorted(us)
            for i in range(1, n):  # strictly increasing times even after the affine map
                if not T(us[i]) > T(us[i - 1]):
                    us[i] = us[i - 1] + 2.0**-6
        if degenerate == "time":
            us = [us[0]] * n
        if degenerate == "freq":
            vs = [vs[0]] * n
        return [[T(u), F(v)] for u, v in zip(us, vs)]

    def forward_line(lo=0.0, hi=4.0):
        n = draw(st.integers(2, 4 if small else 7))
        a, b = _sorted_distinct(draw, 2, u_el)
        if not T(a) < T(b):  # free floats can collapse after the affine map
            a, b = (a, a + 1.0) if a <= 3.0 else (a - 1.0, a)
        inner_u = draw(st.lists(u_el, min_size=n - 2, max_size=n - 2))
        if simple_lines:
            inner_u = sorted({x for x in inner_u if T(a) < T(x) < T(b)})
            inner_u = [x for i, x in enumerate(inner_u) if i == 0 or T(x) > T(inner_u[i - 1])]
            n = len(inner_u) + 2
        us = [a] + inner_u + [b]
        vs = draw(st.lists(u_el, min_size=n, max_size=n))
        if degenerate == "freq":
            vs = [vs[0]] * n
        return [[T(u), F(v)] for u, v in zip(us, vs)]

    def grid_ring(u0, u1, v0, v1):
        """simple polygons with dyadic vertices inside [u0,u1]x[v0,v1] (+ optional hole)."""
        um, vm = (u0 + u1) / 2, (v0 + v1) / 2
        shape = draw(st.sampled_from(["rect", "tri", "tri2", "L", "pent", "diamond"]))
        if shape == "rect":
            ring = [[u0, v0], [u1, v0], [u1, v1], [u0, v1]]
        elif shape == "tri":
            ring = [[u0, v0], [u1, v0], [um, v1]]
        elif shape == "tri2":
            ring = [[u0, v0], [u1, vm], [u0, v1]]
        elif shape == "L":
            ring = [[u0, v0], [u1, v0], [u1, vm], [um, vm], [um, v1], [u0, v1]]
        elif shape == "pent":
            ring = [[u0, v0], [u1, v0], [u1, vm], [um, v1], [u0, vm]]
        else:
            ring = [[um, v0], [u1, vm], [um, v1], [u0, vm]]
        if draw(st.booleans()):
            ring = ring[::-1]
        if draw(st.booleans()):
            ring = ring + [ring[0]]  # explicitly closed ring
        rings = [ring]
        if shape == "rect" and draw(st.integers(0, 2)) == 0:
            du, dv = (u1 - u0) / 4, (v1 - v0) / 4
            nh = draw(st.integers(1, 2))
            if nh == 1:
                rings.append([[u0 + du, v0 + dv], [u1 - du, v0 + dv], [u1 - du, v1 - dv], [u0 + du, v1 - dv]])
            else:
                rings.append([[u0 + du / 2, v0 + dv], [um - du / 2, v0 + dv], [um - du / 2, v1 - dv], [u0 + du / 2, v1 - dv]])
                rings.append([[um + du / 2, v0 + dv], [u1 - du / 2, v0 + dv], [u1 - du / 2, v1 - dv], [um + du / 2, v1 - dv]])
        return [[[T(u), F(v)] for u, v in r] for r in rings]

    def star_ring(u0, u1, v0, v1):
        k = draw(st.integers(4, 5 if small else 8))
        cu, cv = (u0 + u1) / 2, (v0 + v1) / 2
        ru, rv = (u1 - u0) / 2, (v1 - v0) / 2
        ring = []
        for i in range(k):
            jit = draw(st.floats(0.0, 0.5))
            rad = draw(st.floats(0.4, 1.0))
            ang = 2 * math.pi * (i + jit) / k
            ring.append([cu + ru * rad * math.cos(ang), cv + rv * rad * math.sin(ang)])
        rings = [ring]
        if draw(st.integers(0, 2)) == 0:
            h = 0.08
            rings.append([[cu - h * ru, cv - h * rv], [cu + h * ru, cv - h * rv], [cu, cv + h * rv]])
        return [[[T(u), F(v)] for u, v in r] for r in rings]

    def polygon(lo, hi):
        if invalid_polygons and draw(st.integers(0, 3)) == 0:
            # soundevent-valid but not shapely-valid outlines: bow-tie, collinear, repeated points, spike
            a, b = lo + (hi - lo) * 0.125, lo + (hi - lo) * 0.875  # dyadic, so that grid cases stay exactly representable
            c, d = draw(st.sampled_from([0.5, 1.0])), draw(st.sampled_from([2.5, 3.5]))
            shape = draw(st.sampled_from(["bowtie", "bowtie2", "collinear", "repeated", "spike", "needle", "needle_f"]))
            ring = {
                "bowtie": [[a, c], [b, d], [b, c], [a, d]],
                "bowtie2": [[a, c], [b, c], [a + (b - a) / 4, d], [b, d], [a, d / 2]],
                "collinear": [[a, c], [(a + b) / 2, (c + d) / 2], [b, d]],
                "repeated": [[a, c], [a, c], [a, c]],
                "spike": [[a, c], [b, c], [b, d], [(a + b) / 2, c], [a, d]],
                # an out-and-back stroke of zero width whose tip is the extreme time / frequency of the outline
                "needle": [[a, c], [b, c], [hi, c], [b, c], [b, d], [a, d]],
                "needle_f": [[a, c], [b, c], [b, d], [b, 4.0], [b, d], [a, d]],
            }[shape]
            return [[[T(u), F(v)] for u, v in ring]]
        # choose a sub-rectangle of [lo,hi]x[0,4]
        if free:
            a = draw(st.floats(lo, lo + (hi - lo) * 0.4))
            b = draw(st.floats(lo + (hi - lo) * 0.6, hi))
            c = draw(st.floats(0.0, 1.6))
            d = draw(st.floats(2.4, 4.0))
            return star_ring(a, b, c, d)
        klo, khi = int(round(lo * 64)), int(round(hi * 64))
        a, b = _sorted_distinct(draw, 2, st.integers(klo // 4, khi // 4).map(lambda k: k / 16))
        c, d = _sorted_distinct(draw, 2, st.integers(0, 64).map(lambda k: k / 16))
        return grid_ring(a, b, c, d)

    if kind == "TimeStamp":
        coords = T(draw(u_el))
    elif kind == "TimeInterval":
        a, b = sorted([draw(u_el), draw(u_el)])
        if degenerate == "time":
            b = a
        coords = [T(a), T(b)]
    elif kind == "Point":
        coords = [T(draw(u_el)), F(draw(u_el))]
    elif kind == "BoundingBox":
        a, b = sorted([draw(u_el), draw(u_el)])
        c, d = sorted([draw(u_el), draw(u_el)])
        if degenerate == "time":
            b = a
        if degenerate == "freq":
            d = c
        lo_f, hi_f = sorted([F(c), F(d)])
        coords = [T(a), lo_f, T(b), hi_f]
    elif kind == "LineString":
        n = draw(st.integers(2, 4 if small else 8))
        coords = pts(n, mono=simple_lines)
        if coords[0][0] > coords[-1][0]:
            coords = coords[::-1]
    elif kind == "MultiPoint":
        coords = pts(draw(st.integers(1, 3 if small else 6)))
    elif kind == "MultiLineString":
        if degenerate == "time":
            degenerate = None
        coords = [forward_line() for _ in range(draw(st.integers(1, 2 if small else 4)))]
    elif kind == "Polygon":
        coords = polygon(0.0, 4.0)
    elif kind == "MultiPolygon":
        m = draw(st.integers(1, 2 if small else 4))
        slabs = draw(st.permutations([0, 1, 2, 3]))[:m]
        coords = [polygon(s + 0.0625, s + 0.9375) for s in slabs]
    else:  # pragma: no cover
        raise AssertionError(kind)
    return {
        "type": kind,
        "coordinates": coords,
        "meta": {"ts": st_, "fs": sf, "free": free, "flip": flip, "deg": degenerate, "t_off": t_off, "f_off": f_off},
    }


def geom_dict(spec):
    return {"type": spec["type"], "coordinates": spec["coordinates"]}


# ---- helpers that do not depend on soundevent --------------------------------


def leaves(coords, depth=0):
    """Yield [t, f] points of a nested coordinate structure (for 2-D kinds)."""
    if isinstance(coords, (list, tuple)) and coords and not isinstance(coords[0], (list, tuple)):
        yield coords
    else:
        for c in coords:
            yield from leaves(c)


def ref_bounds(kind, coords):
    """(min t, min f, max t, max f) straight from the coordinates."""
    if kind == "TimeStamp":
        return (coords, 0.0, coords, float(MAXF))
    if kind == "TimeInterval":
        return (coords[0], 0.0, coords[1], float(MAXF))
    if kind == "BoundingBox":
        t0, f0, t1, f1 = coords
        return (min(t0, t1), min(f0, f1), max(t0, t1), max(f0, f1))
    if kind == "Point":
        return (coords[0], coords[1], coords[0], coords[1])
    ps = list(leaves(coords))
    ts = [p[0] for p in ps]
    fs = [p[1] for p in ps]
    return (min(ts), min(fs), max(ts), max(fs))
