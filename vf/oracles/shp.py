"""Independent coordinate -> shapely builder used by oracles (does not import soundevent)."""
import shapely
from shapely import geometry as sg

MAXF = 5_000_000


def to_shp(kind, c):
    if kind == "TimeStamp":
        return sg.LineString([[c, 0], [c, MAXF]])
    if kind == "TimeInterval":
        return sg.box(c[0], 0, c[1], MAXF)
    if kind == "BoundingBox":
        return sg.box(c[0], c[1], c[2], c[3])
    if kind == "Point":
        return sg.Point(c)
    if kind == "LineString":
        return sg.LineString(c)
    if kind == "MultiPoint":
        return sg.MultiPoint(c)
    if kind == "MultiLineString":
        return sg.MultiLineString(c)
    if kind == "Polygon":
        return sg.Polygon(c[0], c[1:])
    if kind == "MultiPolygon":
        return sg.MultiPolygon([sg.Polygon(p[0], p[1:]) for p in c])
    raise ValueError(kind)


def scaled(g, sx, sy, x0=0.0, y0=0.0):
    """(g - (x0, y0)) / (sx, sy): translate first so that the scaled coordinates stay small."""
    return shapely.transform(g, lambda a: (a - [x0, y0]) / [sx, sy])


def shift_spec_time(kind, c, dt):
    """Return coordinates shifted by dt in time (pure python)."""
    if kind == "TimeStamp":
        return c + dt
    if kind == "TimeInterval":
        return [c[0] + dt, c[1] + dt]
    if kind == "BoundingBox":
        return [c[0] + dt, c[1], c[2] + dt, c[3]]
    if kind == "Point":
        return [c[0] + dt, c[1]]

    def rec(x):
        if isinstance(x[0], (int, float)):
            return [x[0] + dt, x[1]]
        return [rec(y) for y in x]

    return rec(c)
