"""Object-graph specs for the eight AOEF collection types (C01, C02, C18, C04, C09 share this).

A spec is plain JSON: pools of users / tags / recordings / clips / sound events / sequences / annotations /
predictions and a root that references pool members by index (so shared and distinct sub-objects both occur).
build(spec) turns it into soundevent objects; walk(obj) is an independent reachability walker.
"""

from __future__ import annotations

import datetime
import uuid as uuidlib
from pathlib import Path

from hypothesis import strategies as st

from vf.strategies import geometry_spec

CTYPES = [
    "recording_set",
    "dataset",
    "annotation_set",
    "annotation_project",
    "evaluation_set",
    "prediction_set",
    "model_run",
    "evaluation",
]
ANNOT_TYPES = ("annotation_set", "annotation_project", "evaluation_set")
PRED_TYPES = ("prediction_set", "model_run")

# ---------------------------------------------------------------------------
# strategies for leaves

# text that looks like something else once it is JSON (numbers, booleans, null, containers, escapes), line breaks, a byte-order mark
_LOOKALIKE = ["null", "true", "false", "1", "1.0", "-0", "1e5", "NaN", "Infinity", "[]", "{}", '"q"', "a\nb", "a\r\nb", "\ufeffbom", "0123", "None",
              "2020-01-01", "2020-01-01T00:00:00", "a:b", "\\u0041", "\\", "'", " ", "\t", "\x7f", "\u2028", "\U0001f426"]
_text = st.one_of(st.text(max_size=6), st.text(max_size=6), st.text(max_size=6), st.sampled_from(_LOOKALIKE))
_label = st.one_of(st.sampled_from(["species", "call", "quality", "a", "b"]), st.text(min_size=1, max_size=5), st.sampled_from([x for x in _LOOKALIKE if x.strip()]))
_opt_text = st.one_of(st.none(), _text)
_score = st.one_of(st.sampled_from([0.0, 1.0, 0.5, 0.25]), st.floats(0.0, 1.0, allow_nan=False))
_finite = st.one_of(st.sampled_from([0.0, 1.0, -1.5, 1e-9, 123456.789]), st.floats(allow_nan=False, allow_infinity=False, width=64))


_comp = st.one_of(
    st.sampled_from(["audio", "site 1", "rec.wav", "a.b.c", "día_1", "録音", "x", "cafe\u0301", "\u212bngstr\u00f6m", "\u1112\u1161\u11ab", "\ufb01le",
                     " lead", "trail ", "nbsp\u00a0", "\u3000wide", "tab\t", "back\\slash", "semi;colon", "100%", "#1", "~tmp", "-dash", "dot.",
                     "rec%20two", "gain_100%25", "a%2Fb", ".hidden", "..dots", ".trash-1000"]),
    st.text(alphabet=st.characters(blacklist_characters="/\x00", blacklist_categories=("Cs",)), min_size=1, max_size=6).filter(lambda c: c not in (".", "..")),
)


@st.composite
def _relpath(draw, i, dotdot=False):
    comps = draw(st.lists(_comp, min_size=0, max_size=3))
    if dotdot and draw(st.integers(0, 3)) == 0:
        # a lexically un-normalised path that stays below the audio directory: site_a/../site_b/...
        comps = comps + ["site_a", "..", "site_b"]
    return "/".join(comps + [f"rec_{i}" + draw(st.sampled_from([".wav", ".WAV", " (1).flac", ".é.wav", ".wav ", ".wav\u00a0", ".w\\av"]))])


class _UidFactory:
    """uuids unique within one spec (one uuid <-> one object): a drawn 64-bit prefix and a counter."""

    def __init__(self, hi):
        self.hi = hi
        self.n = 0

    def __call__(self):
        self.n += 1
        return str(uuidlib.UUID(int=(self.hi << 64) | (self.n * 0x9E3779B97F4A7C15 % 2**64)))


_CURRENT_UID = [None]


@st.composite
def _uuid(draw):
    draw(st.just(None))  # keeps this a strategy (the value comes from the per-spec factory)
    return _CURRENT_UID[0]()


@st.composite
def _dt(draw):
    d = datetime.datetime(2000, 1, 1) + datetime.timedelta(
        days=draw(st.one_of(st.integers(0, 12000), st.integers(0, 12000), st.integers(-18000, -1), st.sampled_from([59, 1520, 8825, -10900]))), seconds=draw(st.integers(0, 86399)), microseconds=draw(st.sampled_from([0, 0, 1, 500000, 999999]))
    )
    tz = draw(st.sampled_from(["", "", "+00:00", "+00:00", "+02:00", "-05:30"]))
    return d.isoformat() + tz


@st.composite
def _features(draw, maxn=3):
    labels = draw(st.lists(_label, min_size=0, max_size=maxn, unique=True))
    return [[l, draw(_finite)] for l in labels]


@st.composite
def _note(draw, nusers):
    return {
        "uuid": draw(_uuid()),
        "message": draw(_text),
        "created_by": draw(st.one_of(st.none(), st.integers(0, nusers - 1))) if nusers else None,
        "is_issue": draw(st.booleans()),
        "created_on": draw(_dt()),
    }


def _notes(nusers, maxn=2):
    return st.lists(_note(nusers), min_size=0, max_size=maxn)


def _idx_list(n, maxn, unique=True):
    if n == 0:
        return st.just([])
    return st.lists(st.integers(0, n - 1), min_size=0, max_size=maxn, unique=unique)


@st.composite
def _idx_list_dup(draw, n, maxn):
    """like _idx_list, but one time in five an element is listed a second time (the very same object twice in one list: a tag
    attached twice, a recording listed twice, a sound event counted twice in a sequence) - lists are kept as they are"""
    out = draw(_idx_list(n, maxn))
    if out and draw(st.integers(0, 4)) == 0:
        out = list(out)
        out.insert(draw(st.integers(0, len(out))), out[draw(st.integers(0, len(out) - 1))])
    return out


def _opt_idx(n):
    if n == 0:
        return st.none()
    return st.one_of(st.none(), st.integers(0, n - 1))


@st.composite
def _ptags(draw, ntags, maxn=3):
    idx = draw(_idx_list_dup(ntags, maxn))
    return [[i, draw(_score)] for i in idx]


@st.composite
def collection_spec(draw, ctype=None, paths="plain"):
    ctype = ctype or draw(st.sampled_from(CTYPES))
    _CURRENT_UID[0] = _UidFactory(draw(st.integers(0, 2**64 - 1)))
    nus = draw(st.integers(0, 3))
    users = [
        {
            "uuid": draw(_uuid()),
            "username": draw(_opt_text),
            "email": draw(st.one_of(st.none(), st.sampled_from(["a@example.com", "bob.smith@uni.ac.uk", "x_y@test.org"]))),
            "name": draw(_opt_text),
            "institution": draw(_opt_text),
        }
        for _ in range(nus)
    ]
    tags = draw(st.lists(st.tuples(_label, _text).map(list), min_size=0, max_size=5, unique_by=lambda t: (t[0], t[1])))
    if draw(st.integers(0, 2)) == 0:
        # distinct tags whose label/value collide under naive joining or normalisation; always added as PAIRS of look-alikes
        sep = draw(st.sampled_from([":", ":", ":", ",", "|", " ", "=", "/", "-", "_", ""]))
        base = ["taxon", f"genus{sep}Myotis"]
        pairs = [
            [base, [f"taxon{sep}genus", "Myotis"]], [base, ["Taxon", f"genus{sep}Myotis"]], [base, ["taxon", f"genus{sep}myotis"]], [base, ["taxon ", f"genus{sep}Myotis"]],
            # unicode look-alikes: canonically / compatibility-equivalent but distinct strings
            [["island", "R\u00e9union"], ["island", "Re\u0301union"]], [["\u212bngstr\u00f6m", "x"], ["\u00c5ngstr\u00f6m", "x"]], [["lig", "\ufb01sh"], ["lig", "fish"]], [["w", "\uff21"], ["w", "A"]],
        ]
        first = draw(st.integers(0, 3))  # one of the separator / case / blank pairs is always in
        chosen = [pairs[first]] + draw(st.permutations(pairs[:first] + pairs[first + 1 :]))[: draw(st.integers(0, 2))]
        for pair in chosen:
            for t in pair:
                if t not in tags:
                    tags.append(t)
    ntg = len(tags)
    nrec = draw(st.integers(1, 3)) if ctype not in ("recording_set", "dataset") else draw(st.integers(0, 3))
    recs = []
    for i in range(nrec):
        te = draw(st.sampled_from([1.0, 1.0, 10.0, 0.5, 2.5, 1.0000000000000002, 0.9999999999999999, 1.0000000005, 1e-9, 1e9]))
        recs.append(
            {
                "uuid": draw(_uuid()),
                "path": draw(_relpath(i, dotdot=(paths == "dotdot"))),
                "duration": draw(st.sampled_from([1.0, 10.0, 0.5, 3600.25])),
                "channels": draw(st.integers(1, 4)),
                "samplerate": draw(st.sampled_from([8000, 44100, 256000])),
                "time_expansion": te,
                "hash": draw(_opt_text),
                "date": draw(st.one_of(st.none(), st.dates(datetime.date(1990, 1, 1), datetime.date(2030, 1, 1)).map(lambda d: d.isoformat()))),
                "time": draw(st.one_of(st.none(), st.times().map(lambda t: t.isoformat()))),
                "latitude": draw(st.one_of(st.none(), st.floats(-90, 90, allow_nan=False))),
                "longitude": draw(st.one_of(st.none(), st.floats(-180, 180, allow_nan=False))),
                "license": draw(_opt_text),
                "rights": draw(_opt_text),
                "owners": draw(_idx_list_dup(nus, 2)),
                "tags": draw(_idx_list_dup(ntg, 3)),
                "features": draw(_features()),
                "notes": draw(_notes(nus)),
            }
        )
    if len(recs) >= 2 and draw(st.integers(0, 3)) == 0:
        # the same file registered twice (once as recorded, once as a time-expanded copy of the metadata; two projects merged): two
        # recordings with their own identifiers and metadata, one path - recordings are told apart by identifier
        i, j = draw(st.permutations(list(range(len(recs)))))[:2]
        recs[j]["path"] = recs[i]["path"]
    spec = {"ctype": ctype, "users": users, "tags": tags, "recordings": recs, "paths": paths}
    top = {"uuid": draw(_uuid()), "created_on": draw(_dt())}
    if ctype in ("dataset", "annotation_project", "evaluation_set", "model_run"):
        top["name"] = draw(_text)
        top["description"] = draw(_opt_text)
    if ctype == "annotation_project":
        top["instructions"] = draw(_opt_text)
        top["annotation_tags"] = draw(_idx_list(ntg, 3))
    if ctype == "evaluation_set":
        top["evaluation_tags"] = draw(_idx_list(ntg, 3))
    if ctype == "model_run":
        top["version"] = draw(_opt_text)
    if ctype == "evaluation":
        top["evaluation_task"] = draw(st.sampled_from(["sound_event_detection", "clip_classification", "x"]))
        top["score"] = draw(st.one_of(st.none(), _finite))
        top["metrics"] = draw(_features())
    spec["top"] = top
    if ctype in ("recording_set", "dataset"):
        top["recordings"] = draw(_idx_list_dup(nrec, 3))
        return spec

    ncl = draw(st.integers(1, 3))
    clips = []
    for _ in range(ncl):
        a, b = sorted([draw(st.integers(0, 40)) / 4, draw(st.integers(0, 40)) / 4])
        clips.append({"uuid": draw(_uuid()), "rec": draw(st.integers(0, nrec - 1)), "start": a, "end": b, "features": draw(_features(2))})
    nse = draw(st.sampled_from([0, 1, 2, 3, 4, 5, 3, 4]))
    ses = []
    for _ in range(nse):
        g = draw(st.one_of(st.none(), geometry_spec(small=True)))
        if g is not None:
            g = {"type": g["type"], "coordinates": g["coordinates"]}
        ses.append({"uuid": draw(_uuid()), "rec": draw(st.integers(0, nrec - 1)), "geometry": g, "features": draw(_features(2))})
    nsq = draw(st.sampled_from([0, 1, 2, 3, 2, 3]))
    seqs = []
    for i in range(nsq):
        seqs.append({"uuid": draw(_uuid()), "ses": draw(_idx_list_dup(nse, 3)), "features": draw(_features(2)), "parent": draw(_opt_idx(i))})
    spec.update({"clips": clips, "sound_events": ses, "sequences": seqs})

    want_ann = ctype in ANNOT_TYPES or ctype == "evaluation"
    want_pred = ctype in PRED_TYPES or ctype == "evaluation"

    def annotation_side():
        nsa = draw(st.integers(0, 4)) if nse else 0
        se_anns = [
            {"uuid": draw(_uuid()), "se": draw(st.integers(0, nse - 1)), "notes": draw(_notes(nus)), "tags": draw(_idx_list_dup(ntg, 3)),
             "created_by": draw(_opt_idx(nus)), "created_on": draw(_dt())}
            for _ in range(nsa)
        ]
        nqa = draw(st.sampled_from([0, 1, 2, 2])) if nsq else 0
        seq_anns = [
            {"uuid": draw(_uuid()), "seq": draw(st.integers(0, nsq - 1)), "notes": draw(_notes(nus)), "tags": draw(_idx_list_dup(ntg, 2)),
             "created_by": draw(_opt_idx(nus)), "created_on": draw(_dt())}
            for _ in range(nqa)
        ]
        return se_anns, seq_anns

    def prediction_side():
        nsp = draw(st.integers(0, 4)) if nse else 0
        se_preds = [{"uuid": draw(_uuid()), "se": draw(st.integers(0, nse - 1)), "score": draw(_score), "tags": draw(_ptags(ntg))} for _ in range(nsp)]
        nqp = draw(st.sampled_from([0, 1, 2, 2])) if nsq else 0
        seq_preds = [{"uuid": draw(_uuid()), "seq": draw(st.integers(0, nsq - 1)), "score": draw(_score), "tags": draw(_ptags(ntg, 2))} for _ in range(nqp)]
        return se_preds, seq_preds

    def split(n, parts):
        """assign each of n items to one of `parts` owners or to nobody (-1): every item is used at most once"""
        if parts == 0:
            return [-1] * n
        return [draw(st.sampled_from(list(range(parts)) * 3 + [-1])) for _ in range(n)]

    # number of clip annotations / clip predictions / clip evaluations (one clip annotation + one clip prediction each)
    ncont = draw(st.sampled_from([0, 1, 1, 2, 2, 3]))
    if want_ann:
        se_anns, seq_anns = annotation_side()
        owner_sa, owner_qa = split(len(se_anns), ncont), split(len(seq_anns), ncont)
        clip_anns = []
        for k in range(ncont):
            clip_anns.append(
                {
                    "uuid": draw(_uuid()),
                    "clip": draw(st.integers(0, ncl - 1)),
                    "sound_events": [i for i, o in enumerate(owner_sa) if o == k],
                    "sequences": [i for i, o in enumerate(owner_qa) if o == k],
                    "tags": draw(_idx_list(ntg, 3)),
                    "notes": draw(_notes(nus)),
                    "created_on": draw(_dt()),
                }
            )
        spec.update({"se_annotations": se_anns, "seq_annotations": seq_anns, "clip_annotations": clip_anns})
    if want_pred:
        se_preds, seq_preds = prediction_side()
        owner_sp, owner_qp = split(len(se_preds), ncont), split(len(seq_preds), ncont)
        clip_preds = []
        for k in range(ncont):
            clip_preds.append(
                {
                    "uuid": draw(_uuid()),
                    "clip": draw(st.integers(0, ncl - 1)),
                    "sound_events": [i for i, o in enumerate(owner_sp) if o == k],
                    "sequences": [i for i, o in enumerate(owner_qp) if o == k],
                    "tags": draw(_ptags(ntg)),
                    "features": draw(_features(2)),
                }
            )
        spec.update({"se_predictions": se_preds, "seq_predictions": seq_preds, "clip_predictions": clip_preds})

    if ctype != "evaluation" and ncont >= 2 and draw(st.integers(0, 2)) == 0:
        # overlapping clips: a later clip annotation / prediction also lists (some of) the sound-event annotations / predictions of the
        # first one - the same objects - in the opposite order, after its own.  Every list is kept in its own order.
        for key in ("clip_annotations", "clip_predictions"):
            if key in spec and len(spec[key][0]["sound_events"]) >= 2:
                k2 = draw(st.integers(1, ncont - 1))
                spec[key][k2]["sound_events"] = list(spec[key][k2]["sound_events"]) + list(reversed(spec[key][0]["sound_events"]))
    if ctype in ANNOT_TYPES:
        top["clip_annotations"] = list(range(ncont))
    if ctype in PRED_TYPES:
        top["clip_predictions"] = list(range(ncont))
    if ctype == "annotation_project":
        tasks = []
        task_clips = sorted({c["clip"] for c in spec["clip_annotations"]} | set(draw(_idx_list(ncl, 2))))
        for c in task_clips:
            badges = [
                {"state": draw(st.sampled_from(["assigned", "completed", "verified", "rejected"])), "owner": draw(_opt_idx(nus)), "created_on": draw(_dt())}
                for _ in range(draw(st.integers(0, 2)))
            ]
            tasks.append({"uuid": draw(_uuid()), "clip": c, "status_badges": badges, "created_on": draw(_dt())})
        top["tasks"] = tasks
    if ctype == "evaluation":
        cevs = []
        for k in range(ncont):
            spec["clip_predictions"][k]["clip"] = spec["clip_annotations"][k]["clip"]  # same clip (schema invariant)
            anns = list(spec["clip_annotations"][k]["sound_events"])
            preds = list(spec["clip_predictions"][k]["sound_events"])
            matches = []
            npair = draw(st.integers(0, min(len(anns), len(preds))))
            for _ in range(npair):
                matches.append({"source": preds.pop(0), "target": anns.pop(0)})
            matches += [{"source": p, "target": None} for p in preds] + [{"source": None, "target": a} for a in anns]
            matches = draw(st.permutations(matches)) if matches else []
            ms = []
            for m in matches:
                ms.append({"uuid": draw(_uuid()), "source": m["source"], "target": m["target"], "affinity": draw(_score),
                           "score": draw(st.one_of(st.none(), _score)), "metrics": draw(_features(2))})
            cevs.append({"uuid": draw(_uuid()), "ann": k, "pred": k, "matches": ms, "metrics": draw(_features(2)), "score": draw(st.one_of(st.none(), _score))})
        if cevs and draw(st.integers(0, 3)) == 0:
            # the same predictions (and annotations) evaluated a second time, e.g. under another scoring: two clip evaluations
            # share one ClipPrediction / ClipAnnotation object; every match gets an identifier of its own
            src = cevs[draw(st.integers(0, len(cevs) - 1))]
            twin = {"uuid": draw(_uuid()), "ann": src["ann"], "pred": src["pred"], "metrics": draw(_features(2)), "score": draw(st.one_of(st.none(), _score)),
                    "matches": [dict(m, uuid=draw(_uuid())) for m in src["matches"]]}
            cevs.append(twin)
        top["clip_evaluations"] = cevs
    return spec


# ---------------------------------------------------------------------------
# build


def _parse_dt(s):
    return datetime.datetime.fromisoformat(s)


class Built:
    pass


def build(spec, audio_root=None):
    """spec -> (root object, Built registry).  audio_root: directory under which recording paths are placed."""
    from soundevent import data

    b = Built()
    b.users = [data.User(uuid=u["uuid"], username=u["username"], email=u["email"], name=u["name"], institution=u["institution"]) for u in spec["users"]]
    def _term(k):
        # a key written as [name, label] is a full term of some vocabulary (C02 only: AOEF stores the label, so such a term does not survive
        # a round trip and C01 never generates it); a plain string is the key-derived term
        return data.Term(name=k[0], label=k[1], definition=f"{k[1]} ({k[0]})") if isinstance(k, list) else data.term_from_key(k)

    b.tags = [data.Tag(term=_term(t[0]), value=t[1]) for t in spec["tags"]]

    def feats(fs):
        return [data.Feature(term=data.term_from_key(l), value=v) for l, v in fs]

    def notes(ns):
        return [
            data.Note(uuid=n["uuid"], message=n["message"], created_by=b.users[n["created_by"]] if n["created_by"] is not None else None,
                      is_issue=n["is_issue"], created_on=_parse_dt(n["created_on"]))
            for n in ns
        ]

    b.recordings = []
    for r in spec["recordings"]:
        p = Path(r["path"])
        if audio_root is not None:
            p = Path(audio_root) / p
        b.recordings.append(
            data.Recording(
                uuid=r["uuid"], path=p, duration=r["duration"], channels=r["channels"], samplerate=r["samplerate"], time_expansion=r["time_expansion"],
                hash=r["hash"], date=datetime.date.fromisoformat(r["date"]) if r["date"] else None,
                time=datetime.time.fromisoformat(r["time"]) if r["time"] else None, latitude=r["latitude"], longitude=r["longitude"],
                license=r["license"], rights=r["rights"], owners=[b.users[i] for i in r["owners"]], tags=[b.tags[i] for i in r["tags"]],
                features=feats(r["features"]), notes=notes(r["notes"]),
            )
        )
    top = spec["top"]
    ctype = spec["ctype"]
    common = {"uuid": top["uuid"], "created_on": _parse_dt(top["created_on"])}
    if ctype == "recording_set":
        return data.RecordingSet(recordings=[b.recordings[i] for i in top["recordings"]], **common), b
    if ctype == "dataset":
        return data.Dataset(recordings=[b.recordings[i] for i in top["recordings"]], name=top["name"], description=top["description"], **common), b

    b.clips = [data.Clip(uuid=c["uuid"], recording=b.recordings[c["rec"]], start_time=c["start"], end_time=c["end"], features=feats(c["features"])) for c in spec["clips"]]
    b.sound_events = [
        data.SoundEvent(uuid=s["uuid"], recording=b.recordings[s["rec"]], geometry=data.geometry_validate(s["geometry"], mode="dict") if s["geometry"] else None, features=feats(s["features"]))
        for s in spec["sound_events"]
    ]
    b.sequences = []
    for q in spec["sequences"]:
        b.sequences.append(
            data.Sequence(uuid=q["uuid"], sound_events=[b.sound_events[i] for i in q["ses"]], features=feats(q["features"]),
                          parent=b.sequences[q["parent"]] if q["parent"] is not None else None)
        )

    def ptags(ts):
        return [data.PredictedTag(tag=b.tags[i], score=s) for i, s in ts]

    if "se_annotations" in spec:
        b.se_annotations = [
            data.SoundEventAnnotation(uuid=a["uuid"], sound_event=b.sound_events[a["se"]], notes=notes(a["notes"]), tags=[b.tags[i] for i in a["tags"]],
                                      created_by=b.users[a["created_by"]] if a["created_by"] is not None else None, created_on=_parse_dt(a["created_on"]))
            for a in spec["se_annotations"]
        ]
        b.seq_annotations = [
            data.SequenceAnnotation(uuid=a["uuid"], sequence=b.sequences[a["seq"]], notes=notes(a["notes"]), tags=[b.tags[i] for i in a["tags"]],
                                    created_by=b.users[a["created_by"]] if a["created_by"] is not None else None, created_on=_parse_dt(a["created_on"]))
            for a in spec["seq_annotations"]
        ]
        b.clip_annotations = [
            data.ClipAnnotation(uuid=c["uuid"], clip=b.clips[c["clip"]], sound_events=[b.se_annotations[i] for i in c["sound_events"]],
                                sequences=[b.seq_annotations[i] for i in c["sequences"]], tags=[b.tags[i] for i in c["tags"]], notes=notes(c["notes"]),
                                created_on=_parse_dt(c["created_on"]))
            for c in spec["clip_annotations"]
        ]
    if "se_predictions" in spec:
        b.se_predictions = [data.SoundEventPrediction(uuid=p["uuid"], sound_event=b.sound_events[p["se"]], score=p["score"], tags=ptags(p["tags"])) for p in spec["se_predictions"]]
        b.seq_predictions = [data.SequencePrediction(uuid=p["uuid"], sequence=b.sequences[p["seq"]], score=p["score"], tags=ptags(p["tags"])) for p in spec["seq_predictions"]]
        b.clip_predictions = [
            data.ClipPrediction(uuid=c["uuid"], clip=b.clips[c["clip"]], sound_events=[b.se_predictions[i] for i in c["sound_events"]],
                                sequences=[b.seq_predictions[i] for i in c["sequences"]], tags=ptags(c["tags"]), features=feats(c["features"]))
            for c in spec["clip_predictions"]
        ]
    if ctype == "annotation_set":
        return data.AnnotationSet(clip_annotations=[b.clip_annotations[i] for i in top["clip_annotations"]], **common), b
    if ctype == "evaluation_set":
        return data.EvaluationSet(clip_annotations=[b.clip_annotations[i] for i in top["clip_annotations"]], name=top["name"], description=top["description"],
                                  evaluation_tags=[b.tags[i] for i in top["evaluation_tags"]], **common), b
    if ctype == "annotation_project":
        tasks = [
            data.AnnotationTask(uuid=t["uuid"], clip=b.clips[t["clip"]], created_on=_parse_dt(t["created_on"]),
                                status_badges=[data.StatusBadge(state=s["state"], owner=b.users[s["owner"]] if s["owner"] is not None else None, created_on=_parse_dt(s["created_on"])) for s in t["status_badges"]])
            for t in top["tasks"]
        ]
        return data.AnnotationProject(clip_annotations=[b.clip_annotations[i] for i in top["clip_annotations"]], name=top["name"], description=top["description"],
                                      instructions=top["instructions"], annotation_tags=[b.tags[i] for i in top["annotation_tags"]], tasks=tasks, **common), b
    if ctype == "prediction_set":
        return data.PredictionSet(clip_predictions=[b.clip_predictions[i] for i in top["clip_predictions"]], **common), b
    if ctype == "model_run":
        return data.ModelRun(clip_predictions=[b.clip_predictions[i] for i in top["clip_predictions"]], name=top["name"], version=top["version"], description=top["description"], **common), b
    if ctype == "evaluation":
        cevs = []
        for ce in top["clip_evaluations"]:
            matches = [
                data.Match(uuid=m["uuid"], source=b.se_predictions[m["source"]] if m["source"] is not None else None,
                           target=b.se_annotations[m["target"]] if m["target"] is not None else None, affinity=m["affinity"], score=m["score"], metrics=feats(m["metrics"]))
                for m in ce["matches"]
            ]
            cevs.append(data.ClipEvaluation(uuid=ce["uuid"], annotations=b.clip_annotations[ce["ann"]], predictions=b.clip_predictions[ce["pred"]],
                                            matches=matches, metrics=feats(ce["metrics"]), score=ce["score"]))
        return data.Evaluation(evaluation_task=top["evaluation_task"], clip_evaluations=cevs, metrics=feats(top["metrics"]), score=top["score"], **common), b
    raise ValueError(ctype)


# ---------------------------------------------------------------------------
# independent reachability walker (does not use the adapters)

KIND_OF_CLASS = {
    "User": "users",
    "Recording": "recordings",
    "Clip": "clips",
    "SoundEvent": "sound_events",
    "Sequence": "sequences",
    "SoundEventAnnotation": "sound_event_annotations",
    "SequenceAnnotation": "sequence_annotations",
    "ClipAnnotation": "clip_annotations",
    "SoundEventPrediction": "sound_event_predictions",
    "SequencePrediction": "sequence_predictions",
    "ClipPrediction": "clip_predictions",
    "Match": "matches",
    "ClipEvaluation": "clip_evaluations",
    "AnnotationTask": "tasks",
}


def walk(root):
    """{kind: set of uuid strings} for every uuid-carrying object reachable from root, plus 'tags': set of (label, value)."""
    from pydantic import BaseModel

    out = {k: set() for k in KIND_OF_CLASS.values()}
    out["tags"] = set()
    out["recording_objects"] = []
    seen = set()
    stack = [root]
    while stack:
        x = stack.pop()
        if isinstance(x, BaseModel):
            if id(x) in seen:
                continue
            seen.add(id(x))
            name = type(x).__name__
            if name == "Tag":
                out["tags"].add((x.term.label, x.value))
                continue
            if name in ("Term", "Feature"):
                continue
            if name in KIND_OF_CLASS:
                out[KIND_OF_CLASS[name]].add(str(x.uuid))
                if name == "Recording":
                    out["recording_objects"].append(x)
            for f in type(x).model_fields:
                stack.append(getattr(x, f))
        elif isinstance(x, (list, tuple)):
            stack.extend(x)
    return out
