#!/usr/bin/env python3
"""Re-run every kept seeded change against the current /repo tree.

For each /verif/seeded/<name>/: copy /repo (src+tests) to a scratch directory, apply patch.diff (patch -p1),
re-generate patch.diff against the current tree if it only applied with fuzz/offset, run demo.py with and without the
change, run the quick check of the property it breaks (VERIF_SRC pointing at the scratch copy) and write
/verif/seeded/RESULTS.json + RESULTS.md.  Nothing is ever applied to /repo itself.

usage: tools/run_seeds.py [name ...]   (default: all)   [--rebase] rewrites patch.diff when needed   [--vseeds 2,3] also run the quick check at these VERIF_SEED values   [--merge] with names: update those rows of the last full RESULTS
       [--suite] also runs the repository's test-suite on the scratch copy (new failures = failures beyond the
       baseline's libsndfile ones)   [--jobs n] seeds in parallel (default 4; each quick check itself uses 16 processes)
"""
import json
import os
import shutil
import subprocess
import sys
import tempfile
import time

HERE = os.path.dirname(os.path.dirname(os.path.abspath(__file__)))
SEEDED = os.path.join(HERE, "seeded")


def run(cmd, **kw):
    return subprocess.run(cmd, capture_output=True, text=True, **kw)


_BASELINE = {}


def baseline_fails():
    """failures of the suite on an UNCHANGED scratch copy laid out like the patched ones (src + tests only: the libsndfile
    fixtures fail everywhere, and one test reads a file from outside tests/)"""
    if "fails" not in _BASELINE:
        tmp = tempfile.mkdtemp(prefix="sv-base.")
        try:
            for sub in ("src", "tests"):
                shutil.copytree(os.path.join("/repo", sub), os.path.join(tmp, sub))
            fails = set()
            for _ in range(2):  # twice: a load-dependent flaky test may fail in either run
                r = run(["/venv/bin/python", "-m", "pytest", "-q", "-p", "no:cacheprovider", "-n", "4", "tests"], env=dict(os.environ, PYTHONPATH=os.path.join(tmp, "src")), cwd=tmp)
                fails |= {l.split()[1] for l in r.stdout.splitlines() if l.startswith(("FAILED", "ERROR")) and len(l.split()) > 1}
            # a Hypothesis-deadline test of the repository that fails at random under load (it is in the pinned baseline's failure list too)
            fails.add("tests/test_audio/test_audio.py::test_read_clip")
            _BASELINE["fails"] = fails
        finally:
            shutil.rmtree(tmp, ignore_errors=True)
    return _BASELINE["fails"]


def suite(tmp):
    """test-suite of the scratch copy -> (summary line, failures that the unchanged tree does not have)"""
    r = run(["/venv/bin/python", "-m", "pytest", "-q", "-p", "no:cacheprovider", "-n", "4", "tests"], env=dict(os.environ, PYTHONPATH=os.path.join(tmp, "src")), cwd=tmp)
    lines = r.stdout.strip().splitlines()
    fails = sorted({l.split()[1] for l in lines if l.startswith(("FAILED", "ERROR")) and len(l.split()) > 1})
    new = [f for f in fails if f not in baseline_fails()]
    if new:  # re-run the new failures once on their own: tests/test_audio has a load-dependent flaky test
        r2 = run(["/venv/bin/python", "-m", "pytest", "-q", "-p", "no:cacheprovider"] + new, env=dict(os.environ, PYTHONPATH=os.path.join(tmp, "src")), cwd=tmp)
        new = sorted({l.split()[1] for l in r2.stdout.splitlines() if l.startswith(("FAILED", "ERROR")) and len(l.split()) > 1} - baseline_fails())
    return (lines[-1] if lines else r.stderr[-200:]), new


EXTRA_VSEEDS = []


def one(name, rebase, with_suite=False):
    d = os.path.join(SEEDED, name)
    meta = json.load(open(os.path.join(d, "meta.json")))
    prop = meta.get("breaks_property") or meta.get("property")
    # a change made to break one property may be what another property's check is about (a save that leaves a half-written file is C18's
    # business whatever collection is saved): meta["checked_by"] names the check that is run for it
    prop = meta.get("checked_by") or prop
    tmp = tempfile.mkdtemp(prefix="sv-seed.")
    res = {"name": name, "property": prop}
    try:
        for sub in ("src", "tests"):
            shutil.copytree(os.path.join("/repo", sub), os.path.join(tmp, sub))
        strict = run(["git", "-C", "/repo", "apply", "--check", os.path.join(d, "patch.diff")])
        r = run(["patch", "-p1", "-s", "-i", os.path.join(d, "patch.diff")], cwd=tmp)
        if r.returncode != 0:
            res["patch"] = "FAILED: " + (r.stdout + r.stderr)[-200:]
            return res
        res["patch"] = "clean" if strict.returncode == 0 else "applied with offset/fuzz"
        for root, _, files in os.walk(tmp):
            for f in files:
                if f.endswith((".orig", ".rej")):
                    os.remove(os.path.join(root, f))
        if strict.returncode != 0 and rebase:
            diff = run(["diff", "-ruN", "--label", "a", "--label", "b", "/repo/src", os.path.join(tmp, "src")])
            # rewrite as a git-style patch relative to the repository root
            out = []
            for line in run(["git", "diff", "--no-index", "--no-color", "/repo/src", os.path.join(tmp, "src")]).stdout.splitlines():
                line = line.replace("a/repo/src/", "a/src/").replace("b" + tmp + "/src/", "b/src/").replace("a" + tmp + "/src/", "a/src/").replace("b/repo/src/", "b/src/")
                out.append(line)
            with open(os.path.join(d, "patch.diff"), "w") as fh:
                fh.write("\n".join(out) + "\n")
            chk = run(["git", "-C", "/repo", "apply", "--check", os.path.join(d, "patch.diff")])
            res["patch"] = "rebased onto current tree" + ("" if chk.returncode == 0 else " (STILL NOT CLEAN: " + chk.stderr[-120:] + ")")
        env_mut = dict(os.environ, PYTHONPATH=os.path.join(tmp, "src"))
        env_ok = dict(os.environ, PYTHONPATH="/repo/src")
        demo = os.path.join(d, "demo.py")
        r1 = run(["/venv/bin/python", demo], env=env_mut, cwd=tmp)
        r0 = run(["/venv/bin/python", demo], env=env_ok, cwd=tmp)
        res["demo_with_change"], res["demo_unchanged"] = r1.returncode, r0.returncode
        if with_suite:
            res["suite"], res["suite_new_failures"] = suite(tmp)
        t0 = time.time()
        r = run([os.path.join(HERE, "vcheck"), prop, "--tier", "quick", "--no-evidence"], env=dict(os.environ, VERIF_SRC=os.path.join(tmp, "src")))
        res["check_exit"] = r.returncode
        res["check_seconds"] = round(time.time() - t0, 1)
        first = [l.strip() for l in r.stdout.splitlines() if l.startswith("  first failure")]
        res["first_failure"] = first[0][:260] if first else ""
        res["detected"] = r.returncode == 1 and "VIOLATION property=" in r.stdout
        if meta.get("out_of_domain"):
            res["out_of_domain"] = meta["out_of_domain"]
        # the same check at further VERIF_SEED values: a change that is only found at some seeds needs a better generator
        per = {"1": res["detected"]}
        for vs in EXTRA_VSEEDS:
            r2 = run([os.path.join(HERE, "vcheck"), prop, "--tier", "quick", "--no-evidence"], env=dict(os.environ, VERIF_SRC=os.path.join(tmp, "src"), VERIF_SEED=str(vs)))
            per[str(vs)] = r2.returncode == 1 and "VIOLATION property=" in r2.stdout
        res["detected_by_seed"] = per
        return res
    finally:
        shutil.rmtree(tmp, ignore_errors=True)


def main():
    argv = sys.argv[1:]
    jobs = 4
    if "--jobs" in argv:
        i = argv.index("--jobs")
        jobs = int(argv[i + 1])
        del argv[i : i + 2]
    if "--vseeds" in argv:
        i = argv.index("--vseeds")
        EXTRA_VSEEDS[:] = [int(x) for x in argv[i + 1].split(",") if x]
        del argv[i : i + 2]
    args = [a for a in argv if not a.startswith("--")]
    rebase = "--rebase" in argv
    with_suite = "--suite" in argv
    names = args or sorted(n for n in os.listdir(SEEDED) if os.path.isdir(os.path.join(SEEDED, n)))
    results = []
    from concurrent.futures import ThreadPoolExecutor

    if with_suite:
        print("baseline failures on an unchanged scratch copy:", sorted(baseline_fails()))

    with ThreadPoolExecutor(jobs) as ex:
        def one_and_tell(n):
            r = one(n, rebase, with_suite)
            print(f"  .. {n}: detected={r.get('detected')} by_seed={r.get('detected_by_seed')} demo=({r.get('demo_with_change')},{r.get('demo_unchanged')}) new_suite_failures={r.get('suite_new_failures')}", flush=True)
            return r

        it = ex.map(one_and_tell, names)
        results_iter = list(zip(names, it))
    for n, r in results_iter:
        results.append(r)
        if with_suite:
            print(f"   suite: {r.get('suite')} new failures: {r.get('suite_new_failures')}")
        if len(r.get("detected_by_seed") or {}) > 1:
            print(f"   detected by VERIF_SEED: {r['detected_by_seed']}")
        print(f"{n}: patch={r.get('patch')} demo(with,without)=({r.get('demo_with_change')},{r.get('demo_unchanged')}) check_exit={r.get('check_exit')} {r.get('check_seconds')}s {r.get('first_failure', '')[:120]}")
    if args and "--merge" in argv and os.path.exists(os.path.join(SEEDED, "RESULTS.json")):
        # update the named entries of the last full run and rewrite the table
        prev = json.load(open(os.path.join(SEEDED, "RESULTS.json")))["results"]
        byname = {r["name"]: r for r in results}
        results = [byname.get(r["name"], r) for r in prev] + [r for r in results if r["name"] not in {q["name"] for q in prev}]
        args = []
    if not args:
        head = subprocess.run(["git", "-C", "/repo", "rev-parse", "--short", "HEAD"], capture_output=True, text=True).stdout.strip()
        json.dump({"repo_head": head, "results": results}, open(os.path.join(SEEDED, "RESULTS.json"), "w"), indent=1)
        with open(os.path.join(SEEDED, "RESULTS.md"), "w") as fh:
            fh.write(f"# Seeded changes re-run against /repo @ {head} (quick tier, VERIF_SEED default)\n\n")
            fh.write("| seed | property | patch | demo fails with / passes without | suite: new failures with the change | detected by quick check | s | first failure |\n|---|---|---|---|---|---|---|---|\n")
            for r in results:
                sn = "not run" if "suite_new_failures" not in r else ("none" if not r["suite_new_failures"] else "; ".join(r["suite_new_failures"]))
                per = r.get("detected_by_seed") or {}
                det = "YES" if r.get("detected") else ("n/a: " + r["out_of_domain"] if r.get("out_of_domain") else "NO")
                if len(per) > 1:
                    det += " (" + ", ".join(f"seed {k}: {'yes' if v else 'NO'}" for k, v in sorted(per.items())) + ")"
                fh.write(f"| {r['name']} | {r['property']} | {r.get('patch')} | {r.get('demo_with_change') != 0} / {r.get('demo_unchanged') == 0} | {sn} | {det} | {r.get('check_seconds')} | {r.get('first_failure', '').replace('|', '/')[:160]} |\n")
        nd = sum(1 for r in results if r.get("detected"))
        ood = sum(1 for r in results if r.get("out_of_domain") and not r.get("detected"))
        weak = [r["name"] for r in results if r.get("detected_by_seed") and not all(r["detected_by_seed"].values()) and not r.get("out_of_domain")]
        print(f"{nd}/{len(results)} detected at VERIF_SEED=1 ({ood} outside the claimed input domain); not found at every seed tried: {weak}")


if __name__ == "__main__":
    main()
