#!/usr/bin/env python3
"""Run quick checks (and optionally the demo / test-suite) against a seeded patch on a scratch copy of /repo.

usage: tools/seedtest.py <dir with patch.diff [demo.py]> <PROP>[,<PROP>] [--demo] [--suite] [--only sub] [--scale f] [--tier t]
"""
import os, shutil, subprocess, sys, tempfile, time

def main():
    d, props = sys.argv[1], sys.argv[2]
    rest = sys.argv[3:]
    opt = lambda k: rest[rest.index(k) + 1] if k in rest else None
    tmp = tempfile.mkdtemp(prefix="sv-seed.")
    try:
        for sub in ("src", "tests"):
            shutil.copytree(os.path.join("/repo", sub), os.path.join(tmp, sub))
        r = subprocess.run(["patch", "-p1", "-s", "-i", os.path.abspath(os.path.join(d, "patch.diff"))], cwd=tmp, capture_output=True, text=True)
        if r.returncode != 0:
            print("PATCH-FAILED", r.stdout[-500:], r.stderr[-500:]); return 3
        env = dict(os.environ, VERIF_SRC=os.path.join(tmp, "src"))
        e2 = dict(os.environ, PYTHONPATH=os.path.join(tmp, "src"))
        if "--demo" in rest:
            demo = os.path.abspath(os.path.join(d, "demo.py"))
            r1 = subprocess.run(["/venv/bin/python", demo], env=e2, capture_output=True, text=True, cwd=tmp)
            r0 = subprocess.run(["/venv/bin/python", demo], env=dict(os.environ, PYTHONPATH="/repo/src"), capture_output=True, text=True, cwd=tmp)
            print(f"DEMO: with change exit={r1.returncode}; unchanged exit={r0.returncode}")
        if "--suite" in rest:
            r = subprocess.run(["/venv/bin/python", "-m", "pytest", "-q", "-p", "no:cacheprovider", "-n", "8", os.path.join(tmp, "tests")], env=e2, capture_output=True, text=True, cwd=tmp)
            tail = r.stdout.strip().splitlines()
            fails = [l for l in tail if l.startswith("FAILED")]
            print("SUITE:", tail[-1] if tail else r.stderr[-300:]); [print("   ", f[:150]) for f in fails[:8]]
        rc_all = 0
        for prop in props.split(","):
            t0 = time.time()
            cmd = ["/verif/vcheck", prop, "--tier", opt("--tier") or "quick", "--no-evidence"]
            if opt("--only"): cmd += ["--only", opt("--only")]
            if opt("--scale"): cmd += ["--scale", opt("--scale")]
            r = subprocess.run(cmd, env=env, capture_output=True, text=True)
            lines = [l for l in r.stdout.splitlines() if l.startswith(("VIOLATION", "OK", "HARNESS", "  first"))]
            print(f"{prop}: exit={r.returncode} {time.time()-t0:.1f}s | " + " | ".join(lines)[:700])
            if r.returncode == 2: print(r.stderr[-1500:])
            rc_all = max(rc_all, r.returncode)
        return rc_all
    finally:
        shutil.rmtree(tmp, ignore_errors=True)
sys.exit(main())
