# Rebases seed patches after a fix: commit in /repo: applies each seed patch to the PREVIOUS commit (OLD), ports the fix textually, diffs against HEAD.
# Written for fix 4bbad7f (clip_by_rect wrapped in try/except); adapt OLD and the textual transformation for another fix.
import re, subprocess, sys, os, shutil, tempfile
OLD='d235107'
def sh(*a, **k): return subprocess.run(a, capture_output=True, text=True, **k)
OLD_COMMENT='''        # clip_by_rect is fast but can return self-intersecting shapes (e.g.
        # when the outline touches a corner of the rectangle); use the robust
        # overlay in that case.
'''
NEW_COMMENT='''        # clip_by_rect is fast but can return self-intersecting shapes (e.g.
        # when the outline touches a corner of the rectangle) or fail on a
        # ring that collapses at the edge; use the robust overlay in that
        # case.
'''
for n in sys.argv[1:]:
    w=tempfile.mkdtemp(prefix='sv-port.')
    sh('sh','-c',f'git -C /repo archive {OLD} src | tar -x -C {w}')
    r=sh('patch','-p1','-s','-i',f'/verif/seeded/{n}/patch.diff',cwd=w)
    if r.returncode: print(n,'cannot apply to OLD', r.stdout[-200:]); shutil.rmtree(w); continue
    p=os.path.join(w,'src/soundevent/geometry/operations.py')
    s=open(p).read()
    m=re.search(r'^(?P<ind>[ \t]*)clipped = shapely\.clip_by_rect\((?P<body>(?:.|\n)*?)\n(?P=ind)\)\n|^(?P<ind2>[ \t]*)clipped = shapely\.clip_by_rect\((?P<one>[^\n]*)\)\n', s, re.M)
    if not m: print(n,'NO clip call'); shutil.rmtree(w); continue
    call=m.group(0); ind=m.group('ind') if m.group('ind') is not None else m.group('ind2')
    new_call=f"{ind}try:\n" + "".join((("    "+l) if l.strip() else l) for l in call.splitlines(True)) + f"{ind}except shapely.errors.GEOSException:\n{ind}    clipped = None\n"
    s2=s[:m.start()]+new_call+s[m.end():]
    if f"{ind}if not clipped.is_valid:\n" not in s2: print(n,'NO validity line'); shutil.rmtree(w); continue
    s2=s2.replace(f"{ind}if not clipped.is_valid:\n", f"{ind}if clipped is None or not clipped.is_valid:\n",1)
    if OLD_COMMENT.replace('        ', ind+'    ') in s2:
        s2=s2.replace(OLD_COMMENT.replace('        ', ind+'    '), NEW_COMMENT.replace('        ', ind+'    '),1)
    else: print(n,'(comment differs: kept)')
    open(p,'w').write(s2)
    for root,_,fs in os.walk(w):
        for f in fs:
            if f.endswith(('.orig','.rej')): os.remove(os.path.join(root,f))
    cur=tempfile.mkdtemp(prefix='sv-cur.')
    sh('sh','-c',f'git -C /repo archive HEAD src | tar -x -C {cur}')
    d=sh('git','diff','--no-index','--no-color',os.path.join(cur,'src'),os.path.join(w,'src')).stdout
    d=d.replace('a'+cur+'/src/','a/src/').replace('b'+w+'/src/','b/src/')
    open(f'/tmp/t/rebased2-{n}.diff','w').write(d)
    chk=sh('git','-C','/repo','apply','--check',f'/tmp/t/rebased2-{n}.diff')
    # compile check
    c=sh('/venv/bin/python','-m','py_compile',p)
    print(n,'ported; applies:', chk.returncode==0, 'compiles:', c.returncode==0, 'lines:', len(d.splitlines()))
    shutil.rmtree(w); shutil.rmtree(cur)
