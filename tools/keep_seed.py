#!/usr/bin/env python3
"""Copy a confirmed seeded change into /verif/seeded/<name>/ and record what was run.
usage: tools/keep_seed.py <agent out dir (mK)> <name e.g. C03-m1> "<detected-by text>" "<ran text>"
"""
import json, os, shutil, sys
src, name, detected, ran = sys.argv[1:5]
dst = os.path.join("/verif/seeded", name)
os.makedirs(dst, exist_ok=True)
for f in ("patch.diff", "demo.py"):
    shutil.copy(os.path.join(src, f), os.path.join(dst, f))
meta = json.load(open(os.path.join(src, "meta.json")))
meta["breaks_property"] = meta.get("property")
meta["needs_to_manifest"] = meta.get("needs")
meta["confirmed_by_me"] = ran
meta["detected_by"] = detected
json.dump(meta, open(os.path.join(dst, "meta.json"), "w"), indent=1)
print("kept", dst)
