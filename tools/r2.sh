#!/bin/sh
# usage: tools/r2.sh C07 [extra props]  -> runs seedtest on /tmp/r2-C07-out/m{1,2,3}
P=$1; EXTRA=$2
for m in m1 m2 m3; do
  [ -d /tmp/${R:-r2}-$P-out/$m ] || continue
  echo "--- $P $m: $(python3 -c "import json;print(json.load(open('/tmp/${R:-r2}-$P-out/$m/meta.json')).get('summary','')[:150])")"
  python3 /verif/tools/seedtest.py /tmp/${R:-r2}-$P-out/$m $P${EXTRA:+,$EXTRA} --demo
done
