#!/usr/bin/env python3
"""Regenerates /verif/MANIFEST.json from the table below (kept next to the checks so it stays in sync)."""
import json
import os
import subprocess

HERE = os.path.dirname(os.path.dirname(os.path.abspath(__file__)))

import importlib
import sys

sys.path.insert(0, HERE)
CLAIMED = {}
for _i in range(1, 21):
    _pid = f"C{_i:02d}"
    if not os.path.exists(os.path.join(HERE, "vf", "checks", f"c{_i:02d}.py")):
        continue
    _m = importlib.import_module(f"vf.checks.c{_i:02d}")
    if getattr(_m, "NOT_CLAIMED", None):
        continue
    CLAIMED[_pid] = (_m.TECHNIQUE, _m.LEVEL_TEXT, _m.LEVEL_NOTE, f"DESIGN.md section 6, {_pid}")

ALL = [f"C{i:02d}" for i in range(1, 21)]

# what the later seeding rounds added on top of the module's LEVEL_TEXT (DESIGN.md 11.5a)
PROBE = "a two-thread schedule probe (the call suspended at source lines inside the library while another thread runs a sibling call; both must return what they return alone)"
ADDED = {
    "C01": f"Also: {PROBE} on loads; bare os.PathLike audio directories; document names with several dots; look-alike strings and dates before 1970.",
    "C02": f"Also: {PROBE} on saves into one folder; a save after a rejected save and after a save that fails late; tags of full terms sharing a name or a label.",
    "C03": "Also: seven layouts of the same JSON text (compact, indented, tabs + CRLF, padded, members reordered).",
    "C04": "Also: a `mapping` path (MappingProxyType, ChainMap, UserDict); AOEF projects whose tasks member is missing or null; the prediction side's own copy of the clip (same uuid, other content).",
    "C05": f"Also: {PROBE}; sub-check tiny_coordinates (sub-normal times and frequencies).",
    "C06": f"Also: {PROBE}; sub-check tiny_extents (joint extents of n sub-normal steps: IoU exactly j/n); zero-extent boxes and intervals.",
    "C07": f"Also: {PROBE}; a tolerance-free maximality oracle (no unpaired source and unpaired target with positive affinity); affinities of 1e-17 and less; custom Sequence / deque inputs.",
    "C08": f"Also: {PROBE} with two vocabularies; sub-check enclosed_events (an event inside the area enclosed by a traced contour stays unpaired); two terms under one label; custom Sequence / deque inputs.",
    "C09": f"Also: {PROBE} with two vocabularies; custom Sequence / deque inputs; two terms under one label.",
    "C10": "Also: import with the recording read from notated_path and recording_kwargs; look-alike label mappings; tags of full terms.",
    "C11": f"Also: {PROBE}; -0.0 buffers; zero-length lines; polygons with 2-3 holes of unequal size.",
    "C12": "Also: clips that start before time 0.",
    "C13": f"Also: {PROBE}; comparison functions that group other events themselves; hubs with 255..1024 partners, a complete graph on 257 events.",
    "C14": f"Also: {PROBE}; two lazy segmentations consumed in lock step; time-expanded recordings; an ambient decimal context of precision 3.",
    "C15": f"Also: {PROBE} on two audio directories holding a file of the same name; channel-first sources for resample; the values stored for channel c are the spectrogram of channel c alone.",
    "C16": "Also: sub-check tiny_steps (steps from 1e-8 down to sub-normal).",
    "C17": f"Also: {PROBE}; the axis renamed to an xarray keyword; axes without coordinates.",
    "C18": f"Also: {PROBE} on saves / loads under two directories; loading under a relative directory named like a stored prefix; document names with several dots.",
    "C19": f"Also: {PROBE} with two vocabularies; the hash law across entry points (JSON / dict round trip, every default passed explicitly).",
    "C20": f"Also: {PROBE}; templates whose axes start below zero.",
}


def fix_commits():
    try:
        out = subprocess.run(["git", "-C", "/repo", "log", "--format=%H %s"], capture_output=True, text=True).stdout
    except Exception:
        return []
    return [l.split()[0] for l in out.splitlines() if l.split(" ", 1)[1].startswith("fix:")]


def main():
    checks = []
    for pid in ALL:
        if pid not in CLAIMED:
            continue
        tech, text, note, ref = CLAIMED[pid]
        checks.append(
            {
                "property_id": pid,
                "quick_cmd": f"./vcheck {pid} --tier quick",
                "thorough_cmd": f"./vcheck {pid} --tier thorough",
                "evidence_file": f"/verif/evidence/{pid}.json",
                "replay_cmd_template": f"./vcheck {pid} --replay {{path}}",
                "engine": "vf-runner",
                "level_claimed": {"category": "exploration", "text": text + (" " + ADDED[pid] if pid in ADDED else ""), "design_ref": ref + " and section 11.5a"},
                "level_note": note,
                "technique": tech,
            }
        )
    na = [
        {"property_id": pid, "reason": "check not built yet in this session (planned; see DESIGN.md section 6) - not a claim that the technique cannot apply"}
        for pid in ALL
        if pid not in CLAIMED
    ]
    man = {
        "version": 1,
        "setup_cmd": "sh ./setup.sh",
        "hooks": {
            "guard": "SOUNDEVENT_VERIF",
            "enable": "no hooks are needed: every observation point is public API, the JSON on disk or a returned array; checks import /repo/src (VERIF_SRC overrides) directly",
            "baseline_off_cmd": "cd /repo && /venv/bin/python -m pytest -q -p no:cacheprovider --timeout=900",
            "source_commits": fix_commits(),
            "add_only": True,
        },
        "engines": [
            {
                "name": "vf-runner",
                "path": "/verif/vf/runner.py",
                "serves_properties": sorted(CLAIMED),
                "kind_free_text": "Hypothesis 6.168 property-based testing (seeded, sharded over 16 processes) + exhaustive enumeration of small finite sub-spaces + replay of saved JSON specs; oracles are independent reference models / round trips / metamorphic relations",
            }
        ],
        "checks": checks,
        "not_applicable": na,
        "notes": "One launcher: ./vcheck <ID> --tier quick|thorough (exit 0 held / 1 VIOLATION / 2 harness error). Known findings: known_findings.json. Seeded breaking changes and which checks catch them: seeded/ and DESIGN.md.",
    }
    if not na:
        man.pop("not_applicable")
        man["not_applicable"] = []
    with open(os.path.join(HERE, "MANIFEST.json"), "w") as fh:
        json.dump(man, fh, indent=1)
    print("MANIFEST.json written:", len(checks), "checks,", len(na), "not claimed")


if __name__ == "__main__":
    main()
