#!/usr/bin/env python3
"""Regenerates /verif/MANIFEST.json from the table below (kept next to the checks so it stays in sync)."""
import json
import os
import subprocess

HERE = os.path.dirname(os.path.dirname(os.path.abspath(__file__)))

import importlib
import sys

sys.path.insert(0, HERE)
CLAIMED = {}
for _i in range(1, 21):
    _pid = f"C{_i:02d}"
    if not os.path.exists(os.path.join(HERE, "vf", "checks", f"c{_i:02d}.py")):
        continue
    _m = importlib.import_module(f"vf.checks.c{_i:02d}")
    if getattr(_m, "NOT_CLAIMED", None):
        continue
    CLAIMED[_pid] = (_m.TECHNIQUE, _m.LEVEL_TEXT, _m.LEVEL_NOTE, f"DESIGN.md section 6, {_pid}")

ALL = [f"C{i:02d}" for i in range(1, 21)]


def fix_commits():
    try:
        out = subprocess.run(["git", "-C", "/repo", "log", "--format=%H %s"], capture_output=True, text=True).stdout
    except Exception:
        return []
    return [l.split()[0] for l in out.splitlines() if l.split(" ", 1)[1].startswith("fix:")]


def main():
    checks = []
    for pid in ALL:
        if pid not in CLAIMED:
            continue
        tech, text, note, ref = CLAIMED[pid]
        checks.append(
            {
                "property_id": pid,
                "quick_cmd": f"./vcheck {pid} --tier quick",
                "thorough_cmd": f"./vcheck {pid} --tier thorough",
                "evidence_file": f"/verif/evidence/{pid}.json",
                "replay_cmd_template": f"./vcheck {pid} --replay {{path}}",
                "engine": "vf-runner",
                "level_claimed": {"category": "exploration", "text": text, "design_ref": ref},
                "level_note": note,
                "technique": tech,
            }
        )
    na = [
        {"property_id": pid, "reason": "check not built yet in this session (planned; see DESIGN.md section 6) - not a claim that the technique cannot apply"}
        for pid in ALL
        if pid not in CLAIMED
    ]
    man = {
        "version": 1,
        "setup_cmd": "sh ./setup.sh",
        "hooks": {
            "guard": "SOUNDEVENT_VERIF",
            "enable": "no hooks are needed: every observation point is public API, the JSON on disk or a returned array; checks import /repo/src (VERIF_SRC overrides) directly",
            "baseline_off_cmd": "cd /repo && /venv/bin/python -m pytest -q -p no:cacheprovider --timeout=900",
            "source_commits": fix_commits(),
            "add_only": True,
        },
        "engines": [
            {
                "name": "vf-runner",
                "path": "/verif/vf/runner.py",
                "serves_properties": sorted(CLAIMED),
                "kind_free_text": "Hypothesis 6.168 property-based testing (seeded, sharded over 16 processes) + exhaustive enumeration of small finite sub-spaces + replay of saved JSON specs; oracles are independent reference models / round trips / metamorphic relations",
            }
        ],
        "checks": checks,
        "not_applicable": na,
        "notes": "One launcher: ./vcheck <ID> --tier quick|thorough (exit 0 held / 1 VIOLATION / 2 harness error). Known findings: known_findings.json. Seeded breaking changes and which checks catch them: seeded/ and DESIGN.md.",
    }
    if not na:
        man.pop("not_applicable")
        man["not_applicable"] = []
    with open(os.path.join(HERE, "MANIFEST.json"), "w") as fh:
        json.dump(man, fh, indent=1)
    print("MANIFEST.json written:", len(checks), "checks,", len(na), "not claimed")


if __name__ == "__main__":
    main()
