#!/usr/bin/env python3
"""Sensitivity helper: apply a textual mutation to a scratch copy of /repo/src and run quick checks on it.

usage: tools/mut.py <relpath under src/soundevent> <old> <new> <PROP>[,<PROP>...] [--suite] [--only sub]
"""
import os, shutil, subprocess, sys, tempfile, time

def main():
    rel, old, new, props = sys.argv[1:5]
    rest = sys.argv[5:]
    suite = "--suite" in rest
    only = None
    if "--only" in rest:
        only = rest[rest.index("--only") + 1]
    scale = None
    if "--scale" in rest:
        scale = rest[rest.index("--scale") + 1]
    tmp = tempfile.mkdtemp(prefix="sv-mut.")
    try:
        shutil.copytree("/repo/src", os.path.join(tmp, "src"))
        p = os.path.join(tmp, "src", "soundevent", rel)
        s = open(p).read()
        if s.count(old) < 1:
            print("MUTATION-NOT-APPLICABLE: pattern not found"); return 3
        s = s.replace(old, new, 1)
        open(p, "w").write(s)
        env = dict(os.environ, VERIF_SRC=os.path.join(tmp, "src"))
        if suite:
            shutil.copytree("/repo/tests", os.path.join(tmp, "tests"))
            e2 = dict(env, PYTHONPATH=os.path.join(tmp, "src"))
            r = subprocess.run(["/venv/bin/python", "-m", "pytest", "-q", "-x", "-p", "no:cacheprovider", "-n", "8", os.path.join(tmp, "tests")], env=e2, capture_output=True, text=True, cwd=tmp)
            print("SUITE:", r.stdout.strip().splitlines()[-1] if r.stdout.strip() else r.stderr[-300:])
        rc_all = 0
        for prop in props.split(","):
            t0 = time.time()
            cmd = ["/verif/vcheck", prop, "--tier", "quick", "--no-evidence"]
            if only: cmd += ["--only", only]
            if scale: cmd += ["--scale", scale]
            r = subprocess.run(cmd, env=env, capture_output=True, text=True)
            lines = [l for l in r.stdout.splitlines() if l.startswith(("VIOLATION", "OK", "HARNESS", "  first"))]
            print(f"{prop}: exit={r.returncode} {time.time()-t0:.1f}s | " + " | ".join(lines)[:600])
            if r.returncode == 2: print(r.stderr[-1500:])
            rc_all = max(rc_all, r.returncode)
        return rc_all
    finally:
        shutil.rmtree(tmp, ignore_errors=True)

sys.exit(main())
