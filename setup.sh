#!/bin/sh
# Offline setup: make sure hypothesis is importable by /venv/bin/python (no-op when present) and
# install atheris (thorough tier of C03 only) into /verif/.deps.  Never touches the network.
HERE="$(cd "$(dirname "$0")" && pwd)"
export PIP_NO_INDEX=1
/venv/bin/python -c "import hypothesis" 2>/dev/null || \
  /venv/bin/pip install --no-index --find-links /opt/veriftools/wheels hypothesis || exit 1
mkdir -p "$HERE/.deps"
PYTHONPATH="$HERE/.deps" /venv/bin/python -c "import atheris" 2>/dev/null || \
  /venv/bin/pip install --no-index --find-links /opt/veriftools/wheels --target "$HERE/.deps" atheris \
  || echo "setup: atheris not installable here; the C03 thorough fuzz step will report itself as skipped"
/venv/bin/python -c "import hypothesis, soundevent; print('setup ok: hypothesis', hypothesis.__version__)"
